// C05 correspondence harness: the real cppcms::sessions::session_cookies (save/load) over the real
// hmac_cipher / aes_cipher encryptors built by hmac_factory / aes_factory, driven through a real
// cppcms::session_interface (cookie adapter) with time() interposed; the real session_pool::init
// configuration path + session_interface::load/save for the "pool" scenarios.
// One scenario per input line, one result line per scenario.  The harness also prints the values of
// the cryptographic primitives (HMAC tags, raw AES block decryptions), computed through cppcms::crypto,
// that the extracted model needs: the model's decision logic is what is compared, not the primitives.
#include <string>
#include <vector>
#include <map>
#include <set>
#include <sstream>
#include <iostream>
#include <memory>
#include <stdexcept>
#include <algorithm>
#include <time.h>
#include <string.h>
#include <stdlib.h>
#include <stdio.h>
#include <unistd.h>
#include <cppcms/json.h>
#include <cppcms/http_cookie.h>
#include <cppcms/session_api.h>
#include <cppcms/session_pool.h>
#include <cppcms/session_cookies.h>
#include <cppcms/crypto.h>
#include <cppcms/base64.h>
#include <cppcms/cppcms_error.h>
#include <cppcms/service.h>
#include <cppcms/application.h>
#include <cppcms/applications_pool.h>
#include <cppcms/http_request.h>
#include <cppcms/http_response.h>
#include <cppcms/http_context.h>
#include <cppcms/mount_point.h>
#include <booster/backtrace.h>
#include <thread>
#include <atomic>
#include <sys/socket.h>
#include <sys/un.h>
#include <sys/stat.h>
#include <poll.h>
#include <signal.h>
// session_cookies::save() leaves the new cookie in session_interface::temp_cookie_ (private); the
// harness reads it there (layout is unchanged by this define; all std headers are included above)
#define private public
#include <cppcms/session_interface.h>
#undef private
#include "hmac_encryptor.h"
#include "aes_encryptor.h"
#include "hexio.h"
using namespace hx;

static time_t g_now = 1000000000;
extern "C" time_t time(time_t *t) { if(t) *t = g_now; return g_now; }

struct adapter : public cppcms::session_interface_cookie_adapter {
	std::string value;
	int sets; bool cleared; std::string last_value; std::string last_name; bool last_has_age; unsigned last_age;
	adapter() : sets(0), cleared(false), last_has_age(false), last_age(0) {}
	virtual void set_cookie(cppcms::http::cookie const &c)
	{
		if(c.name()!="cppcms_session") return; // exposed-value cookies are not the session cookie
		sets++; last_name=c.name(); last_value=c.value();
		last_has_age=c.max_age_defined(); last_age=c.max_age();
		if(c.value().empty()) cleared=true;
	}
	virtual std::string get_session_cookie(std::string const &) { return value; }
	virtual std::set<std::string> get_cookie_names() { std::set<std::string> s; if(!value.empty()) s.insert("cppcms_session"); return s; }
};

static std::vector<std::string> split_by(std::string const &s,char d)
{
	std::vector<std::string> r; std::string cur;
	for(size_t i=0;i<s.size();i++) { if(s[i]==d) { r.push_back(cur); cur.clear(); } else cur+=s[i]; }
	r.push_back(cur); return r;
}

static int alg_id(std::string const &ain)
{
	static const char *n[]={"md5","sha1","sha224","sha256","sha384","sha512"};
	std::string a=ain;
	for(size_t i=0;i<a.size();i++) if(a[i]>='A' && a[i]<='Z') a[i]=a[i]-'A'+'a';
	for(int i=0;i<6;i++) if(a==n[i]) return i;
	return -1;
}
static const char *alg_name(int i)
{
	static const char *n[]={"md5","sha1","sha224","sha256","sha384","sha512"};
	return n[i];
}

// ---------------- primitive values for the model ----------------
struct prims {
	std::set<std::string> seen;
	std::ostringstream out;
	void hmac(int alg,std::string const &key,std::string const &msg)
	{
		if(alg<0) return;
		std::string id = "H" + std::string(1,char('0'+alg)) + key + "|" + msg;
		if(!seen.insert(id).second) return;
		cppcms::crypto::hmac md(alg_name(alg),cppcms::crypto::key(key.data(),key.size()));
		std::vector<char> tag(md.digest_size(),0);
		md.append(msg.data(),msg.size());
		md.readout(&tag[0]);
		out << " H=" << alg << "," << hex(key) << "," << hex(msg) << "," << hex(std::string(&tag[0],tag.size()));
	}
	std::string tag_of(int alg,std::string const &key,std::string const &msg)
	{
		cppcms::crypto::hmac md(alg_name(alg),cppcms::crypto::key(key.data(),key.size()));
		std::vector<char> tag(md.digest_size(),0);
		md.append(msg.data(),msg.size());
		md.readout(&tag[0]);
		return std::string(&tag[0],tag.size());
	}
	static unsigned dlen(int alg) { static unsigned d[]={16,20,28,32,48,64}; return d[alg]; }
	// raw block decryption D_k(y) through cppcms::crypto::cbc with a zero IV
	void blocks(std::string const &key,std::string const &body)
	{
		if(key.size()!=16 && key.size()!=24 && key.size()!=32) return;
		std::unique_ptr<cppcms::crypto::cbc> c = cppcms::crypto::cbc::create(
			key.size()==16 ? cppcms::crypto::cbc::aes128 : key.size()==24 ? cppcms::crypto::cbc::aes192 : cppcms::crypto::cbc::aes256);
		if(!c.get()) return;
		c->set_key(cppcms::crypto::key(key.data(),key.size()));
		char zero[16]; memset(zero,0,16);
		for(size_t i=0;i+16<=body.size();i+=16) {
			std::string y=body.substr(i,16);
			std::string id="B"+key+"|"+y;
			if(!seen.insert(id).second) continue;
			char x[16];
			c->set_iv(zero,16);
			c->decrypt(y.data(),x,16);
			out << " B=" << hex(key) << "," << hex(std::string(x,16)) << "," << hex(y);
		}
	}
	// everything a decision about cipher text `ci` under configuration token `cfg` can need
	void for_cipher(std::string const &cfg,std::string const &ci)
	{
		std::vector<std::string> p=split_by(cfg,'/');
		if(p[0]=="hmac" && p.size()==3) {
			int a=alg_id(p[1]); if(a<0) return;
			std::string k=unhex(p[2]);
			if(ci.size()>=dlen(a)) hmac(a,k,ci.substr(0,ci.size()-dlen(a)));
		}
		else if(p[0]=="aes" && p.size()==5) {
			int a=alg_id(p[3]); if(a<0) return;
			std::string ck=unhex(p[2]),mk=unhex(p[4]);
			if(ci.size()>=dlen(a)) {
				std::string body=ci.substr(0,ci.size()-dlen(a));
				hmac(a,mk,body);
				blocks(ck,body);
			}
		}
		else if(p[0]=="aesk" && p.size()==3) {
			std::string k=unhex(p[2]);
			size_t cks = 0;
			std::unique_ptr<cppcms::crypto::cbc> c = cppcms::crypto::cbc::create(p[1]);
			if(!c.get()) return;
			cks=c->key_size();
			// superset: the split reading and both derived readings of the combined key
			std::vector<std::pair<std::string,std::string> > cand;
			if(k.size()>=cks) cand.push_back(std::make_pair(k.substr(0,cks),k.substr(cks)));
			for(int a=3;a<=5;a+=2) {
				hmac(a,k,"0"); hmac(a,k,"\1");
				std::string k1=tag_of(a,k,"0"),k2=tag_of(a,k,"\1");
				if(k1.size()>=cks) cand.push_back(std::make_pair(k1.substr(0,cks),k2.substr(0,20)));
			}
			if(ci.size()>=20) {
				std::string body=ci.substr(0,ci.size()-20);
				for(size_t i=0;i<cand.size();i++) { hmac(1,cand[i].second,body); blocks(cand[i].first,body); }
			}
		}
	}
	// key preparation of aes_factory(algo,key): both derived readings
	void for_cfg(std::string const &cfg)
	{
		std::vector<std::string> p=split_by(cfg,'/');
		if(p[0]=="aesk" && p.size()==3) {
			std::string k=unhex(p[2]);
			for(int a=3;a<=5;a+=2) { hmac(a,k,"0"); hmac(a,k,"\1"); }
		}
	}
	void for_cookie(std::string const &cfg,std::string const &cookie)
	{
		if(cookie.empty()) return;
		std::string ci;
		if(!cppcms::b64url::decode(cookie.substr(1),ci)) return;
		for_cipher(cfg,ci);
	}
};

// ---------------- encryptor construction ----------------
static std::unique_ptr<cppcms::sessions::encryptor_factory> make_factory(std::string const &cfg)
{
	using namespace cppcms::sessions::impl;
	std::vector<std::string> p=split_by(cfg,'/');
	std::unique_ptr<cppcms::sessions::encryptor_factory> f;
	if(p[0]=="hmac" && p.size()==3) {
		std::string k=unhex(p[2]);
		f.reset(new hmac_factory(p[1],cppcms::crypto::key(k.data(),k.size())));
	}
	else if(p[0]=="aes" && p.size()==5) {
		std::string ck=unhex(p[2]),mk=unhex(p[4]);
		f.reset(new aes_factory(p[1],cppcms::crypto::key(ck.data(),ck.size()),p[3],cppcms::crypto::key(mk.data(),mk.size())));
	}
	else if(p[0]=="aesk" && p.size()==3) {
		std::string k=unhex(p[2]);
		f.reset(new aes_factory(p[1],cppcms::crypto::key(k.data(),k.size())));
	}
	else throw std::runtime_error("bad cfg token");
	return f;
}
static std::unique_ptr<cppcms::sessions::encryptor> make_enc(std::string const &cfg)
{
	return make_factory(cfg)->get();
}

static cppcms::session_pool *g_pool = 0; // only gives session_interface an object to live on

// candidate construction from issued cookies (text) and their cipher texts (bytes)
static long idx(std::string const &s,size_t len)
{
	if(s=="$") return long(len);
	long v=atol(s.c_str());
	if(v<0) v+=long(len);
	if(v<0) v=0;
	if(v>long(len)) v=long(len);
	return v;
}
static std::string assemble(std::string const &spec,std::vector<std::string> const &src)
{
	std::string r;
	if(spec.empty()) return r;
	std::vector<std::string> segs=split_by(spec,'+');
	for(size_t i=0;i<segs.size();i++) {
		std::string const &s=segs[i];
		if(s.empty()) continue;
		if(s[0]=='h') { r+=unhex(s.substr(1)); continue; }
		std::vector<std::string> q=split_by(s,',');
		if(q.size()!=3) throw std::runtime_error("bad segment");
		size_t n=atoi(q[0].c_str());
		if(n>=src.size()) throw std::runtime_error("bad cookie index");
		long a=idx(q[1],src[n].size()),b=idx(q[2],src[n].size());
		if(a<b) r+=src[n].substr(a,b-a);
	}
	return r;
}
static std::string g_cfgL; // configuration token of the loading side (forged candidates need its keys)

// candidates an attacker WITHOUT the key cannot build: arbitrary bodies carrying a correct MAC.  They drive
// the checks that come after the MAC verification (block structure, inner length, expiry) on the real code.
static std::string mac_for(std::string const &body)
{
	std::vector<std::string> p=split_by(g_cfgL,'/');
	prims pr;
	if(p[0]=="hmac" && p.size()==3 && alg_id(p[1])>=0) return pr.tag_of(alg_id(p[1]),unhex(p[2]),body);
	if(p[0]=="aes" && p.size()==5 && alg_id(p[3])>=0) return pr.tag_of(alg_id(p[3]),unhex(p[4]),body);
	throw std::runtime_error("forge needs hmac/ or aes/ configuration");
}
static std::string forge_aes(int nblk,unsigned long size,int extra,std::string const &seed,bool has_t=false,long long tmo=0)
{
	std::vector<std::string> p=split_by(g_cfgL,'/');
	if(!(p[0]=="aes" && p.size()==5)) throw std::runtime_error("fa needs aes/ configuration");
	std::string ck=unhex(p[2]);
	unsigned st=12345;
	for(size_t i=0;i<seed.size();i++) st=st*31+(unsigned char)seed[i];
	std::string body(nblk*16+extra,'\0');
	for(size_t i=0;i<body.size();i++) { st=st*1103515245u+12345u; body[i]=char(st>>16); }
	if(nblk>=2) {
		std::unique_ptr<cppcms::crypto::cbc> c = cppcms::crypto::cbc::create(
			ck.size()==16 ? cppcms::crypto::cbc::aes128 : ck.size()==24 ? cppcms::crypto::cbc::aes192 : cppcms::crypto::cbc::aes256);
		c->set_key(cppcms::crypto::key(ck.data(),ck.size()));
		char zero[16]; memset(zero,0,16);
		c->set_iv(zero,16);
		char x[16];
		c->decrypt(body.data()+16,x,16);
		// plaintext block 1 = D(c1) xor c0 : choose c0 so that its first four bytes are the wanted size field
		for(int i=0;i<4;i++) body[i]=char(x[i]^char((size>>(8*i))&0xFF));
		if(has_t) for(int i=0;i<8;i++) body[4+i]=char(x[4+i]^char(((unsigned long long)tmo>>(8*i))&0xFF));
	}
	return body;
}
static std::string make_candidate(std::string const &tok,std::vector<std::string> const &cookies,std::vector<std::string> const &ciphers)
{
	size_t c=tok.find(':');
	std::string kind=tok.substr(0,c),rest=tok.substr(c+1);
	if(kind=="ft") { std::string body=unhex(rest); return "C"+cppcms::b64url::encode(body+mac_for(body)); }
	if(kind=="fa") {
		std::vector<std::string> q=split_by(rest,':');
		if(q.size()!=4 && q.size()!=5) throw std::runtime_error("bad fa");
		std::string body=forge_aes(atoi(q[0].c_str()),strtoul(q[1].c_str(),0,10),atoi(q[2].c_str()),q[3],q.size()==5,q.size()==5?atoll(q[4].c_str()):0);
		return "C"+cppcms::b64url::encode(body+mac_for(body));
	}
	if(kind=="raw") return unhex(rest);
	if(kind=="c") return assemble(rest,cookies);
	if(kind=="b") return "C"+cppcms::b64url::encode(assemble(rest,ciphers));
	if(kind=="cflip" || kind=="bflip") {
		std::vector<std::string> q=split_by(rest,':');
		if(q.size()!=3) throw std::runtime_error("bad flip");
		size_t n=atoi(q[0].c_str()); size_t pos=atol(q[1].c_str()); int bit=atoi(q[2].c_str());
		if(kind=="cflip") { std::string s=cookies.at(n); s.at(pos)^=char(1<<bit); return s; }
		std::string s=ciphers.at(n); s.at(pos)^=char(1<<bit); return "C"+cppcms::b64url::encode(s);
	}
	if(kind=="bflip2") {
		// two single-bit flips in one cipher text: bflip2:<n>:<pos1>:<bit1>:<pos2>:<bit2>
		std::vector<std::string> q=split_by(rest,':');
		if(q.size()!=5) throw std::runtime_error("bad flip2");
		std::string s=ciphers.at(atoi(q[0].c_str()));
		s.at(atol(q[1].c_str()))^=char(1<<atoi(q[2].c_str()));
		s.at(atol(q[3].c_str()))^=char(1<<atoi(q[4].c_str()));
		return "C"+cppcms::b64url::encode(s);
	}
	if(kind=="bxor") {
		// a byte pattern XORed into the cipher text at an offset: bxor:<n>:<pos>:<hex>
		std::vector<std::string> q=split_by(rest,':');
		if(q.size()!=3) throw std::runtime_error("bad xor");
		std::string s=ciphers.at(atoi(q[0].c_str()));
		std::string pat=unhex(q[2]);
		size_t pos=atol(q[1].c_str());
		for(size_t i=0;i<pat.size();i++) s.at(pos+i)^=pat[i];
		return "C"+cppcms::b64url::encode(s);
	}
	throw std::runtime_error("bad candidate kind");
}

static std::string verdict_l1(cppcms::sessions::session_cookies &sc,std::string const &cookie)
{
	adapter ad; ad.value=cookie;
	std::ostringstream o;
	try {
		cppcms::session_interface si(*g_pool,ad);
		std::string data("stale"); time_t to=-12345;
		bool ok=sc.load(si,data,to);
		if(ok) o << "A," << hex(data) << "," << (long long)to << "," << (ad.cleared?1:0);
		else o << "R," << (ad.cleared?1:0);
	}
	catch(std::exception const &e) { o.str(""); o << "EXC"; }
	return o.str();
}

static void scenario(std::vector<std::string> const &t,std::ostream &out)
{
	// scn <cfgA> <cfgB|=> now=<t> ops...
	std::string cfgA=t.at(1),cfgB=t.at(2);
	g_now = atoll(t.at(3).substr(4).c_str());
	prims pr;
	std::unique_ptr<cppcms::sessions::session_cookies> scB;
	// the encryptor objects of side A: all made by ONE factory (as session_pool does, one per request);
	// `new` makes another one and switches to it, `obj:<k>` switches back to the k-th
	std::unique_ptr<cppcms::sessions::encryptor_factory> facA;
	std::vector<std::unique_ptr<cppcms::sessions::session_cookies> > objs;
	std::vector<cppcms::sessions::encryptor *> encs;
	size_t cur=0;
	try {
		facA=make_factory(cfgA);
		std::unique_ptr<cppcms::sessions::encryptor> e=facA->get();
		encs.push_back(e.get());
		objs.push_back(std::unique_ptr<cppcms::sessions::session_cookies>(new cppcms::sessions::session_cookies(std::move(e))));
	}
	catch(std::exception const &e) { out << "cfgerrA"; return; }
	if(cfgB!="=") {
		try { scB.reset(new cppcms::sessions::session_cookies(make_enc(cfgB))); }
		catch(std::exception const &e) { pr.for_cfg(cfgA); out << "cfgerrB" << pr.out.str(); return; }
	}
	std::string const &cfgL = cfgB=="=" ? cfgA : cfgB;
	g_cfgL = cfgL;
	pr.for_cfg(cfgA); pr.for_cfg(cfgL);
	out << "ok";
	std::vector<std::string> cookies,ciphers;
	for(size_t i=4;i<t.size();i++) {
		std::string const &tok=t[i];
		if(tok.compare(0,4,"now=")==0) { g_now=atoll(tok.substr(4).c_str()); continue; }
		if(tok=="new") {
			std::unique_ptr<cppcms::sessions::encryptor> e=facA->get();
			encs.push_back(e.get());
			objs.push_back(std::unique_ptr<cppcms::sessions::session_cookies>(new cppcms::sessions::session_cookies(std::move(e))));
			cur=objs.size()-1;
			continue;
		}
		if(tok.compare(0,4,"obj:")==0) {
			size_t k=atoi(tok.substr(4).c_str());
			if(k>=objs.size()) throw std::runtime_error("bad object index");
			cur=k;
			continue;
		}
		if(tok.compare(0,2,"S:")==0 || tok.compare(0,2,"X:")==0) {
			std::vector<std::string> q=split_by(tok,':');
			std::string cookie;
			try {
				if(tok[0]=='S') {
					adapter ad;
					cppcms::session_interface si(*g_pool,ad);
					objs[cur]->save(si,unhex(q.at(1)),(time_t)atoll(q.at(2).c_str()),true,false);
					cookie=si.temp_cookie_;
				}
				else {
					cookie="C"+cppcms::b64url::encode(encs[cur]->encrypt(unhex(q.at(1))));
				}
			}
			catch(std::exception const &e) { out << " " << tok[0] << "=EXC"; cookies.push_back(""); ciphers.push_back(""); continue; }
			cookies.push_back(cookie);
			std::string ci;
			if(!cookie.empty()) cppcms::b64url::decode(cookie.substr(1),ci);
			ciphers.push_back(ci);
			pr.for_cookie(cfgA,cookie);
			out << " " << tok[0] << "=" << hex(cookie);
			continue;
		}
		// candidate
		std::string cand;
		try { cand=make_candidate(tok,cookies,ciphers); }
		catch(std::exception const &e) { out << " L=BADSPEC"; continue; }
		pr.for_cookie(cfgL,cand);
		out << " L=" << hex(cand) << ":" << verdict_l1(cfgB=="=" ? *objs[cur] : *scB,cand);
	}
	out << pr.out.str();
}

// ---------------- cbc scenario: the cppcms::crypto::cbc object itself (src/aes.cpp) ----------------
// cbc <name> <keyhex> ops...   I:<ivhex> set_iv | N set_nonce_iv | E:<hex> encrypt | D:<hex> decrypt
// (lengths are multiples of the block size).  The raw block values the model needs are computed with a SEPARATE
// object, one block at a time, after set_iv(zero).
static void cbc_scenario(std::vector<std::string> const &t,std::ostream &out)
{
	std::string name=t.at(1),key=unhex(t.at(2));
	std::unique_ptr<cppcms::crypto::cbc> c=cppcms::crypto::cbc::create(name);
	if(!c.get()) { out << "nocbc"; return; }
	try { c->set_key(cppcms::crypto::key(key.data(),key.size())); }
	catch(std::exception const &e) { out << "keyerr"; return; }
	prims pr;
	out << "ok";
	for(size_t i=3;i<t.size();i++) {
		std::string const &tok=t[i];
		{
			if(tok=="N") { c->set_nonce_iv(); out << " N=ok"; }
			else if(tok.compare(0,2,"I:")==0) {
				std::string iv=unhex(tok.substr(2));
				try { c->set_iv(iv.data(),iv.size()); out << " I=ok"; }
				catch(std::exception const &e) { out << " I=EXC"; }
			}
			else if(tok.compare(0,2,"E:")==0 || tok.compare(0,2,"D:")==0) {
				std::string in=unhex(tok.substr(2));
				if(in.size()%16!=0) throw std::runtime_error("cbc scenario: ragged length");
				std::string res(in.size(),'\0');
				char dummy_in=0,dummy_out=0;
				try {
					if(tok[0]=='E') c->encrypt(in.empty() ? &dummy_in : in.data(),res.empty() ? &dummy_out : &res[0],in.size());
					else c->decrypt(in.empty() ? &dummy_in : in.data(),res.empty() ? &dummy_out : &res[0],in.size());
					out << " " << tok[0] << "=" << hex(res);
					pr.blocks(key,tok[0]=='E' ? res : in);
				}
				catch(std::exception const &e) { out << " " << tok[0] << "=EXC"; }
			}
			else throw std::runtime_error("bad cbc op");
		}
	}
	out << pr.out.str();
}

// ---------------- pool scenario: configuration path + session_interface ----------------
static std::string kvdump(cppcms::session_interface &si)
{
	std::set<std::string> ks=si.key_set();
	std::ostringstream o; bool first=true;
	for(std::set<std::string>::iterator p=ks.begin();p!=ks.end();++p) {
		if(!first) o << ";"; first=false;
		o << hex(*p) << "=" << hex(si.get(*p));
	}
	if(first) o << "-";
	return o.str();
}

static void pool_scenario(std::vector<std::string> const &t,std::ostream &out)
{
	// pool prim=<cfg token|-> now=<t> enc=<hex> mac=<hex> cbc=<hex> key=<hex of hex string> hkey=.. ckey=.. timeout=<n> expire=<fixed|renew|browser>
	//      kv=<khex>:<vhex>;...  now=<t2> candidates...
	std::map<std::string,std::string> a;
	size_t i=1;
	for(;i<t.size();i++) {
		size_t e=t[i].find('=');
		if(e==std::string::npos) break;
		std::string k=t[i].substr(0,e);
		if(k=="now" && a.count("now")) break;
		a[k]=t[i].substr(e+1);
	}
	g_now=atoll(a["now"].c_str());
	cppcms::json::value s;
	s["session"]["location"]="client";
	if(a.count("enc")) s["session"]["client"]["encryptor"]=unhex(a["enc"]);
	if(a.count("mac")) s["session"]["client"]["hmac"]=unhex(a["mac"]);
	if(a.count("cbc")) s["session"]["client"]["cbc"]=unhex(a["cbc"]);
	if(a.count("key")) s["session"]["client"]["key"]=unhex(a["key"]);
	if(a.count("hkey")) s["session"]["client"]["hmac_key"]=unhex(a["hkey"]);
	if(a.count("ckey")) s["session"]["client"]["cbc_key"]=unhex(a["ckey"]);
	// keys read from files (session.client.key_file / hmac_key_file / cbc_key_file): content given in hex
	std::vector<std::string> tmpfiles;
	struct cleaner { std::vector<std::string> &f; cleaner(std::vector<std::string> &x):f(x){} ~cleaner(){ for(size_t i=0;i<f.size();i++) remove(f[i].c_str()); } } cl(tmpfiles);
	char const *kf[3][2]={{"keyfile","key_file"},{"hkeyfile","hmac_key_file"},{"ckeyfile","cbc_key_file"}};
	for(int j=0;j<3;j++) {
		if(!a.count(kf[j][0])) continue;
		char path[64]; strcpy(path,"/tmp/C05-key-XXXXXX");
		int fd=mkstemp(path);
		if(fd<0) throw std::runtime_error("mkstemp failed");
		std::string content=unhex(a[kf[j][0]]);
		if(!content.empty() && write(fd,content.data(),content.size())!=(ssize_t)content.size()) { close(fd); throw std::runtime_error("write failed"); }
		close(fd);
		tmpfiles.push_back(path);
		s["session"]["client"][kf[j][1]]=std::string(path);
	}
	s["session"]["timeout"]=atoi(a["timeout"].c_str());
	s["session"]["expire"]=a.count("expire") ? a["expire"] : std::string("fixed");
	std::unique_ptr<cppcms::session_pool> pool;
	try {
		pool.reset(new cppcms::session_pool(s));
		pool->init();
	}
	catch(std::exception const &e) {
		std::string m=e.what();
		// the backtrace text follows the message on later lines
		size_t nl=m.find('\n'); if(nl!=std::string::npos) m=m.substr(0,nl);
		std::string cls="other";
		if(m.find("without encryption method")!=std::string::npos) cls="nomethod";
		else if(m.find("Can't specify both")!=std::string::npos) cls="both";
		else if(m.find("without MAC")!=std::string::npos) cls="nomac";
		else if(m.find("Unknown encryptor")!=std::string::npos) cls="unknown";
		else if(m.find("invalid key length")!=std::string::npos) cls="aeskeylen";
		else if(m.find("is not supported")!=std::string::npos) cls="aesalgo";
		else if(m.find("hexadecimal")!=std::string::npos) cls="badhex";
		else if(m.find("is empty")!=std::string::npos) cls="keyfileempty";
		out << "cfgerr:" << cls;
		return;
	}
	prims pr;
	std::string prim=a.count("prim") ? a["prim"] : std::string("-");
	g_cfgL = prim;
	if(prim!="-") pr.for_cfg(prim);
	std::vector<std::string> cookies,ciphers;
	std::string issued;
	try {
		adapter ad;
		cppcms::session_interface si(*pool,ad);
		bool l=si.load();
		std::vector<std::string> kvs=split_by(a["kv"],';');
		for(size_t j=0;j<kvs.size();j++) {
			std::vector<std::string> kv=split_by(kvs[j],':');
			if(kv.size()==2) si.set(unhex(kv[0]),unhex(kv[1]));
		}
		si.save();
		issued=ad.last_value;
		out << "ok S=" << hex(issued) << " load0=" << (l?1:0) << " sets=" << ad.sets
		    << " age=" << (ad.last_has_age ? (long long)ad.last_age : -1LL);
	}
	catch(std::exception const &e) {
		std::string m=e.what(); size_t nl=m.find('\n'); if(nl!=std::string::npos) m=m.substr(0,nl);
		std::string cls="other";
		if(m.find("key legth is too small")!=std::string::npos) cls="hmackeyshort";
		else if(m.find("Invalid key size")!=std::string::npos) cls="cbckeysize";
		else if(m.find("is not supported")!=std::string::npos) cls="aesalgo";
		else if(m.find("unsupported hash")!=std::string::npos) cls="badhash";
		out << "useerr:" << cls;
		return;
	}
	cookies.push_back(issued);
	{ std::string ci; if(!issued.empty()) cppcms::b64url::decode(issued.substr(1),ci); ciphers.push_back(ci); }
	if(prim!="-") pr.for_cookie(prim,issued);
	for(;i<t.size();i++) {
		std::string const &tok=t[i];
		if(tok.compare(0,4,"now=")==0) { g_now=atoll(tok.substr(4).c_str()); continue; }
		if(tok.compare(0,2,"Q~")==0) {
			// a whole request on the pool: a new session_interface (= a new encryptor object from the pool's factory),
			// load() of the presented cookie, set() of some values, save() -- decrypt then encrypt on ONE encryptor
			std::vector<std::string> q=split_by(tok,'~');
			std::string cand;
			try { if(q.size()!=3) throw std::runtime_error("bad Q"); cand=make_candidate(q[1],cookies,ciphers); }
			catch(std::exception const &e) { out << " Q=BADSPEC"; cookies.push_back(""); ciphers.push_back(""); continue; }
			if(prim!="-") pr.for_cookie(prim,cand);
			out << " Q=" << hex(cand) << ":";
			std::string issued2;
			try {
				adapter ad; ad.value=cand;
				cppcms::session_interface si(*pool,ad);
				bool l=si.load();
				std::string loaded=kvdump(si);
				std::vector<std::string> kvs=split_by(q[2],';');
				for(size_t j=0;j<kvs.size();j++) {
					std::vector<std::string> kv=split_by(kvs[j],':');
					if(kv.size()==2) si.set(unhex(kv[0]),unhex(kv[1]));
				}
				int sets_before=ad.sets;
				si.save();
				bool has_issued = ad.sets>sets_before && !ad.last_value.empty();
				if(has_issued) issued2=ad.last_value;
				out << (l?1:0) << "," << loaded << "," << (ad.cleared?1:0) << "," << (has_issued ? hex(issued2) : std::string("-"));
			}
			catch(std::exception const &e) { out << "EXC"; }
			cookies.push_back(issued2);
			{ std::string ci; if(!issued2.empty()) cppcms::b64url::decode(issued2.substr(1),ci); ciphers.push_back(ci); }
			if(prim!="-" && !issued2.empty()) pr.for_cookie(prim,issued2);
			continue;
		}
		std::string cand;
		try { cand=make_candidate(tok,cookies,ciphers); }
		catch(std::exception const &e) { out << " L=BADSPEC"; continue; }
		if(prim!="-") pr.for_cookie(prim,cand);
		out << " L=" << hex(cand) << ":";
		try {
			adapter ad; ad.value=cand;
			cppcms::session_interface si(*pool,ad);
			bool ok=si.load();
			if(ok) out << "A," << kvdump(si) << "," << (ad.cleared?1:0);
			else out << "R," << (ad.cleared?1:0);
		}
		catch(std::exception const &e) { out << "EXC"; }
	}
	out << pr.out.str();
}

// ---------------- http scenario: the same requests through a real cppcms::service (SCGI on a unix socket) ----------------
// The session is loaded by the framework before application::main (http::context / session_interface(http::context&),
// cookie taken from the request's Cookie header) and saved when the response headers are written; the answer is read
// from the Set-Cookie lines on the wire.  Same line format and same answers as the pool scenario (only Q requests).
static std::string kvdump(cppcms::session_interface &si);
struct sess_app : public cppcms::application {
	sess_app(cppcms::service &s) : cppcms::application(s) {}
	virtual void main(std::string)
	{
		std::ostringstream o;
		bool l=!session().data_.empty();
		o << "l=" << (l?1:0) << ";kv=" << kvdump(session()) << ";";
		std::vector<std::string> kvs=split_by(request().get("set"),';');
		for(size_t j=0;j<kvs.size();j++) {
			std::vector<std::string> kv=split_by(kvs[j],':');
			if(kv.size()==2) session().set(unhex(kv[0]),unhex(kv[1]));
		}
		response().out() << o.str();     // headers are written here: the framework saves the session first
	}
};

static bool cookie_text_safe(std::string const &c)
{
	for(size_t i=0;i<c.size();i++) {
		char ch=c[i];
		if(!((ch>='A'&&ch<='Z')||(ch>='a'&&ch<='z')||(ch>='0'&&ch<='9')||ch=='-'||ch=='_')) return false;
	}
	return true;
}

static bool scgi_request(std::string const &sock,std::string const &cookie,std::string const &sets,std::string &reply)
{
	int fd=socket(AF_UNIX,SOCK_STREAM,0);
	if(fd<0) return false;
	sockaddr_un a; memset(&a,0,sizeof(a)); a.sun_family=AF_UNIX;
	strncpy(a.sun_path,sock.c_str(),sizeof(a.sun_path)-1);
	{	// the socket file appears at bind(); until listen() a connect is refused: retry for a while
		int tries=0;
		while(connect(fd,(sockaddr *)&a,sizeof(a))!=0) {
			if(tries++>5000) { close(fd); return false; }
			usleep(2000);
		}
	}
	std::string h;
	struct add { static void kv(std::string &h,char const *k,std::string const &v) { h.append(k); h.push_back('\0'); h.append(v); h.push_back('\0'); } };
	add::kv(h,"CONTENT_LENGTH","0");
	add::kv(h,"SCGI","1");
	add::kv(h,"REQUEST_METHOD","GET");
	add::kv(h,"SCRIPT_NAME","/s");
	add::kv(h,"PATH_INFO","");
	add::kv(h,"QUERY_STRING","set="+sets);
	add::kv(h,"SERVER_NAME","localhost");
	add::kv(h,"SERVER_PORT","80");
	add::kv(h,"SERVER_PROTOCOL","HTTP/1.0");
	add::kv(h,"REMOTE_ADDR","127.0.0.1");
	if(!cookie.empty()) add::kv(h,"HTTP_COOKIE","other=1; cppcms_session="+cookie+"; z=2");
	std::ostringstream msg; msg << h.size() << ":" << h << ",";
	std::string m=msg.str();
	size_t off=0;
	while(off<m.size()) { ssize_t n=send(fd,m.data()+off,m.size()-off,MSG_NOSIGNAL); if(n<=0) { close(fd); return false; } off+=n; }
	reply.clear();
	for(;;) {
		pollfd pf; pf.fd=fd; pf.events=POLLIN; pf.revents=0;
		int r=poll(&pf,1,20000);
		if(r<=0) { close(fd); return false; }
		char buf[4096]; ssize_t n=recv(fd,buf,sizeof(buf),0);
		if(n<0) { close(fd); return false; }
		if(n==0) break;
		reply.append(buf,n);
	}
	close(fd);
	return true;
}

// the values of all `Set-Cookie:cppcms_session=` header lines of a CGI style reply, in order
static std::vector<std::string> session_set_cookies(std::string const &reply)
{
	std::vector<std::string> r;
	size_t end=reply.find("\r\n\r\n");
	std::string head=reply.substr(0,end==std::string::npos ? reply.size() : end+2);
	size_t p=0;
	for(;;) {
		size_t e=head.find("\r\n",p);
		if(e==std::string::npos) break;
		std::string line=head.substr(p,e-p);
		p=e+2;
		if(line.size()<11) continue;
		std::string low=line.substr(0,11);
		for(size_t i=0;i<low.size();i++) if(low[i]>='A'&&low[i]<='Z') low[i]=low[i]-'A'+'a';
		if(low!="set-cookie:") continue;
		std::string v=line.substr(11);
		while(!v.empty() && v[0]==' ') v.erase(0,1);
		if(v.compare(0,15,"cppcms_session=")!=0) continue;
		v=v.substr(15);
		size_t sc=v.find(';'); if(sc!=std::string::npos) v=v.substr(0,sc);
		if(v.size()>=2 && v[0]=='"' && v[v.size()-1]=='"') v=v.substr(1,v.size()-2);
		r.push_back(v);
	}
	return r;
}

static void http_scenario(std::vector<std::string> const &t,std::ostream &out)
{
	std::map<std::string,std::string> a;
	size_t i=1;
	for(;i<t.size();i++) {
		size_t e=t[i].find('=');
		if(e==std::string::npos) break;
		std::string k=t[i].substr(0,e);
		if(k=="now" && a.count("now")) break;
		a[k]=t[i].substr(e+1);
	}
	g_now=atoll(a["now"].c_str());
	char tmpl[]="/tmp/C05-http-XXXXXX";
	if(!mkdtemp(tmpl)) { out << "httperr:mkdtemp"; return; }
	std::string dir=tmpl,sock=dir+"/scgi.sock";
	struct rmdir_ { std::string d,s; ~rmdir_() { unlink(s.c_str()); rmdir(d.c_str()); } } cleaner = { dir, sock };
	cppcms::json::value cfg;
	cfg["service"]["api"]="scgi";
	cfg["service"]["socket"]=sock;
	cfg["service"]["worker_threads"]=1;
	cfg["http"]["script_names"][0]="/s";
	cfg["logging"]["level"]="emergency";
	cfg["session"]["location"]="client";
	if(a.count("enc")) cfg["session"]["client"]["encryptor"]=unhex(a["enc"]);
	if(a.count("mac")) cfg["session"]["client"]["hmac"]=unhex(a["mac"]);
	if(a.count("cbc")) cfg["session"]["client"]["cbc"]=unhex(a["cbc"]);
	if(a.count("key")) cfg["session"]["client"]["key"]=unhex(a["key"]);
	if(a.count("hkey")) cfg["session"]["client"]["hmac_key"]=unhex(a["hkey"]);
	if(a.count("ckey")) cfg["session"]["client"]["cbc_key"]=unhex(a["ckey"]);
	cfg["session"]["timeout"]=atoi(a["timeout"].c_str());
	cfg["session"]["expire"]=a.count("expire") ? a["expire"] : std::string("fixed");
	std::string prim=a.count("prim") ? a["prim"] : std::string("-");
	g_cfgL=prim;
	prims pr;
	if(prim!="-") pr.for_cfg(prim);
	std::ostringstream body;
	bool failed=false; std::string why;
	try {
		// service::shutdown() may only be called once run() reached its event loop (it writes to a socket pair that run()
		// creates, and exits the process when that fails): the service is stopped only after it answered a request; if it
		// never did, it is left alone (leaked) unless run() has already returned
		struct running {
			cppcms::service *srv; std::thread *th; std::atomic<bool> returned; bool answered; std::string error;
			running() : srv(0), th(0), returned(false), answered(false) {}
			~running()
			{
				if(!srv) return;
				if(answered) { srv->shutdown(); th->join(); delete th; delete srv; }
				else if(returned) { th->join(); delete th; delete srv; }
				else th->detach();
			}
		} run;
		run.srv=new cppcms::service(cfg);
		cppcms::service &srv=*run.srv;
		srv.applications_pool().mount(cppcms::create_pool<sess_app>(),cppcms::mount_point("/s"));
		running *rp=&run;
		run.th=new std::thread([rp]() { try { rp->srv->run(); } catch(std::exception const &e) { rp->error=e.what(); } rp->returned=true; });
		{ // wait for the acceptor
			struct stat st; int tries=0;
			while(stat(sock.c_str(),&st)!=0 && !run.returned && tries++<15000) usleep(2000);
			if(stat(sock.c_str(),&st)!=0 || run.returned) { failed=true; why="nosocket"; }
		}
		std::vector<std::string> cookies,ciphers;
		bool first=true;
		std::vector<std::string> reqs;
		reqs.push_back("Q~raw:-~"+a["kv"]);       // the request that creates the session
		for(;i<t.size();i++) reqs.push_back(t[i]);
		for(size_t r=0;r<reqs.size() && !failed;r++) {
			std::string const &tok=reqs[r];
			if(tok.compare(0,4,"now=")==0) { g_now=atoll(tok.substr(4).c_str()); continue; }
			std::vector<std::string> q=split_by(tok,'~');
			std::string cand;
			bool bad=false;
			try { if(q.size()!=3 || q[0]!="Q") throw std::runtime_error("only Q"); cand=make_candidate(q[1],cookies,ciphers); }
			catch(std::exception const &e) { bad=true; }
			if(!bad && !cookie_text_safe(cand)) bad=true;
			if(bad) { body << " Q=BADSPEC"; cookies.push_back(""); ciphers.push_back(""); continue; }
			if(prim!="-") pr.for_cookie(prim,cand);
			std::string reply;
			if(!scgi_request(sock,cand,q[2],reply)) { failed=true; why="request"; break; }
			run.answered=true;
			size_t hb=reply.find("\r\n\r\n");
			std::string rb= hb==std::string::npos ? std::string() : reply.substr(hb+4);
			size_t pl=rb.find("l="),pk=rb.find(";kv=");
			if(pl!=0 || pk==std::string::npos || rb.empty() || rb[rb.size()-1]!=';') {
				// no page: the request died inside the framework (reported as an exception of the code under test)
				if(first) { body << "useerr:other"; failed=false; goto done; }
				body << " Q=" << hex(cand) << ":EXC"; cookies.push_back(""); ciphers.push_back(""); continue;
			}
			std::string l=rb.substr(2,1),kvd=rb.substr(pk+4,rb.size()-pk-5);
			std::vector<std::string> sc=session_set_cookies(reply);
			bool cleared=false; std::string issued2;
			for(size_t k=0;k<sc.size();k++) { if(sc[k].empty()) cleared=true; else issued2=sc[k]; }
			if(!sc.empty() && sc.back().empty()) issued2.clear();
			if(first) {
				body << "ok S=" << hex(issued2) << " load0=" << l << " sets=" << sc.size() << " age=-2";
				first=false;
			}
			else body << " Q=" << hex(cand) << ":" << l << "," << kvd << "," << (cleared?1:0) << "," << (issued2.empty() ? std::string("-") : hex(issued2));
			cookies.push_back(issued2);
			{ std::string ci; if(!issued2.empty()) cppcms::b64url::decode(issued2.substr(1),ci); ciphers.push_back(ci); }
			if(prim!="-" && !issued2.empty()) pr.for_cookie(prim,issued2);
		}
		done: ;
	}
	catch(std::exception const &e) {
		std::string m=e.what(); size_t nl=m.find('\n'); if(nl!=std::string::npos) m=m.substr(0,nl);
		out << "httperr:service " << hex(m.substr(0,80));
		return;
	}
	if(failed) { out << "httperr:" << why; return; }
	out << body.str() << pr.out.str();
}

int main()
{
	signal(SIGPIPE,SIG_IGN);
	std::ios::sync_with_stdio(false);
	{
		cppcms::json::value s;
		s["session"]["location"]="client";
		s["session"]["client"]["hmac"]="sha1";
		s["session"]["client"]["hmac_key"]="000102030405060708090a0b0c0d0e0f10111213";
		g_pool=new cppcms::session_pool(s);
		g_pool->init();
	}
	std::string line;
	while(std::getline(std::cin,line)) {
		std::vector<std::string> t=split(line);
		std::ostringstream out;
		try {
			if(t.empty()) out << "BAD-CASE";
			else if(t[0]=="scn") scenario(t,out);
			else if(t[0]=="pool") pool_scenario(t,out);
			else if(t[0]=="katseq" && t.size()>=3) {
				// ONE crypto::hmac (or, with key "md", one message_digest) object used for several messages in a row: every readout
				// must leave the object ready for the next message (aes_factory derives both keys from one hmac object this way)
				out << "ok";
				if(t[2]=="md") {
					std::unique_ptr<cppcms::crypto::message_digest> md=cppcms::crypto::message_digest::create_by_name(t[1]);
					if(!md.get()) { out.str("nomd"); }
					else for(size_t i=3;i<t.size();i++) {
						std::string m=unhex(t[i]);
						size_t cut=m.size()/3;
						md->append(m.data(),cut); md->append(m.data()+cut,m.size()-cut);
						std::vector<char> tag(md->digest_size(),0);
						md->readout(&tag[0]);
						out << " T=" << hex(std::string(&tag[0],tag.size()));
					}
				}
				else {
					std::string k=unhex(t[2]);
					cppcms::crypto::hmac h(t[1],cppcms::crypto::key(k.data(),k.size()));
					for(size_t i=3;i<t.size();i++) {
						std::string m=unhex(t[i]);
						size_t cut=m.size()/2;
						h.append(m.data(),cut); h.append(m.data()+cut,m.size()-cut);
						std::vector<char> tag(h.digest_size(),0);
						h.readout(&tag[0]);
						out << " T=" << hex(std::string(&tag[0],tag.size()));
					}
				}
			}
			else if(t[0]=="cbc" && t.size()>=3) cbc_scenario(t,out);
			else if(t[0]=="http") http_scenario(t,out);
			else if(t[0]=="kat" && t.size()>=3) {
				// known-answer lines: raw block decryptions and HMAC tags as the harness computes them for the model
				prims pr;
				if(t[1]=="aes") { std::string body; for(size_t i=3;i<t.size();i++) body+=unhex(t[i]); pr.blocks(unhex(t[2]),body); }
				else if(t.size()==4) pr.hmac(alg_id(t[1]),unhex(t[2]),unhex(t[3]));
				out << "ok" << pr.out.str();
			}
			else out << "BAD-CASE";
		}
		catch(std::exception const &e) { out.str(""); out << "HARNESS-EXC " << e.what(); }
		std::string o=out.str();
		for(size_t i=0;i<o.size();i++) if(o[i]=='\n') o[i]='|';
		std::cout << o << "\n" << std::flush; // flushed per line: a crash on the next line must not lose this answer
	}
	std::cout.flush();
	return 0;
}
