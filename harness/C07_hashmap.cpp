// C07: operation sequences against the real cppcms::impl::hash_map<std::string,int,string_hash> (private/hash_map.h),
// the container behind mem_cache::primary and mem_cache::triggers.  Observed after every operation: the result, size()
// and the iteration order begin()..end() (a digest of it) - bucket ranges, rehash and the intrusive list decide it.
//   case:   hm <op> ...     I:<key>:<int>  insert     F:<key>  find     E:<key>  erase(find(key)) when found
//                            C  clear       R:<n>  rehash(n)  (skipped when n==0 and the map is not empty: hash % 0)
//   answer: one token per op  <tag><result>:<size>:<fnv1a64 of "key=val;" in iteration order>
#include "hash_map.h"
#include <string>
#include <vector>
#include <iostream>
#include <stdio.h>
#include <stdlib.h>
#include <signal.h>
#include <unistd.h>
#include "hexio.h"
using namespace hx;

typedef cppcms::impl::hash_map<std::string,int,cppcms::impl::string_hash> map_type;

static std::vector<std::string> splitc(std::string const &s,char sep)
{
	std::vector<std::string> v; std::string cur;
	for(size_t i=0;i<s.size();i++) { if(s[i]==sep) { v.push_back(cur); cur.clear(); } else cur+=s[i]; }
	v.push_back(cur);
	return v;
}
static std::string digest(map_type &m)
{
	unsigned long long h=14695981039346656037ULL;
	size_t n=0;
	for(map_type::iterator p=m.begin();p!=m.end();++p,++n) {
		char buf[32]; snprintf(buf,sizeof(buf),"=%d;",p->second);
		std::string s=hex(p->first)+buf;
		for(size_t i=0;i<s.size();i++) { h^=(unsigned char)s[i]; h*=1099511628211ULL; }
		if(n>100000) break;
	}
	char buf[64]; snprintf(buf,sizeof(buf),"%zu:%016llx",m.size(),h);
	return buf;
}
static void on_crash(int sig)
{
	char buf[64]; int n=snprintf(buf,sizeof(buf),"<crash signal=%d>\n",sig);
	ssize_t r=write(1,buf,n); (void)r;
	_exit(3);
}
int main()
{
	signal(SIGSEGV,on_crash); signal(SIGABRT,on_crash); signal(SIGBUS,on_crash); signal(SIGFPE,on_crash); signal(SIGALRM,on_crash);
	std::string line;
	while(std::getline(std::cin,line)) {
		std::vector<std::string> v=split(line);
		std::string out;
		alarm(60);
		if(v.size()>=1 && v[0]=="hm") {
			map_type m;
			for(size_t i=1;i<v.size();i++) {
				std::vector<std::string> f=splitc(v[i],':');
				if(i>1) out+=' ';
				std::string const &o=f[0];
				if(o=="I" && f.size()==3) {
					std::pair<map_type::iterator,bool> r=m.insert(std::pair<std::string,int>(unhex(f[1]),atoi(f[2].c_str())));
					out+= r.second ? "i1" : "i0";
					if(r.first==m.end() || r.first->first!=unhex(f[1])) out+="!bad-iterator";
				}
				else if(o=="F" && f.size()==2) {
					map_type::iterator p=m.find(unhex(f[1]));
					if(p==m.end()) out+="f-"; else { char b[32]; snprintf(b,sizeof(b),"f%d",p->second); out+=b; }
				}
				else if(o=="E" && f.size()==2) {
					map_type::iterator p=m.find(unhex(f[1]));
					if(p==m.end()) out+="e-"; else { char b[32]; snprintf(b,sizeof(b),"e%d",p->second); out+=b; m.erase(p); }
				}
				else if(o=="C") { m.clear(); out+="c"; }
				else if(o=="R" && f.size()==2) {
					size_t n=strtoul(f[1].c_str(),0,10);
					if(n==0 && m.size()!=0) out+="rskip"; else { m.rehash(n); out+="r"; }
				}
				else out+="BAD-OP";
				out+=":"+digest(m);
			}
		}
		else out="BAD-CASE";
		std::cout<<out<<"\n";
		std::cout.flush();
	}
	return 0;
}
