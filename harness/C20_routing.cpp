// C20 correspondence harness: builds real cppcms::application trees (url_dispatcher + url_mapper) and
// mounted application pools from a textual description, then dispatches urls / maps keys / routes
// requests through the code of the current tree and prints what happened.  Grammar: checks/C20.py.
#include <cppcms/url_mapper.h>
#include <cppcms/url_dispatcher.h>
#include <cppcms/http_response.h>
#include <cppcms/http_request.h>
#include <cppcms/http_context.h>
#include <cppcms/application.h>
#include <cppcms/applications_pool.h>
#include <cppcms/mount_point.h>
#include <cppcms/service.h>
#include <cppcms/json.h>
#include <cppcms/cppcms_error.h>
#include <booster/regex.h>
#include <sstream>
#include <iostream>
#include <stdexcept>
#include <memory>
#include "dummy_api.h"     // /repo/tests/dummy_api.h: the in-memory connection the repository's own tests use
#include "hexio.h"
using namespace hx;

static std::string g_log;          // handler firings of the current query
struct unsupported : public std::runtime_error { unsupported(std::string const &s) : std::runtime_error(s) {} };

struct Rec {
	int hid;
	void fire(std::vector<std::string> const &a)
	{
		std::ostringstream o; o << "F " << hid << " " << a.size();
		for(size_t i=0;i<a.size();i++) o << " " << hex(a[i]);
		if(!g_log.empty()) g_log += " ";
		g_log += o.str();
	}
	typedef std::string S; typedef std::string const &R;
	// assign-style members (std::string by value, as url_dispatcher::assign requires)
	void a0() { std::vector<S> v; fire(v); }
	void a1(S a) { std::vector<S> v; v.push_back(a); fire(v); }
	void a2(S a,S b) { std::vector<S> v; v.push_back(a); v.push_back(b); fire(v); }
	void a3(S a,S b,S c) { std::vector<S> v; v.push_back(a); v.push_back(b); v.push_back(c); fire(v); }
	void a4(S a,S b,S c,S d) { std::vector<S> v; v.push_back(a); v.push_back(b); v.push_back(c); v.push_back(d); fire(v); }
	void a5(S a,S b,S c,S d,S e) { std::vector<S> v; v.push_back(a); v.push_back(b); v.push_back(c); v.push_back(d); v.push_back(e); fire(v); }
	void a6(S a,S b,S c,S d,S e,S f) { std::vector<S> v; v.push_back(a); v.push_back(b); v.push_back(c); v.push_back(d); v.push_back(e); v.push_back(f); fire(v); }
	// map-style members (parsed + encoding-validated parameters)
	void m0() { std::vector<S> v; fire(v); }
	void m1(R a) { std::vector<S> v; v.push_back(a); fire(v); }
	void m2(R a,R b) { std::vector<S> v; v.push_back(a); v.push_back(b); fire(v); }
	void m3(R a,R b,R c) { std::vector<S> v; v.push_back(a); v.push_back(b); v.push_back(c); fire(v); }
	void m4(R a,R b,R c,R d) { std::vector<S> v; v.push_back(a); v.push_back(b); v.push_back(c); v.push_back(d); fire(v); }
	void m5(R a,R b,R c,R d,R e) { std::vector<S> v; v.push_back(a); v.push_back(b); v.push_back(c); v.push_back(d); v.push_back(e); fire(v); }
	// map-style members with int parameters (parse_url_parameter through an istream); printed in decimal
	static S dec(int v) { std::ostringstream o; o.imbue(std::locale::classic()); o << v; return o.str(); }
	void i1(int a) { std::vector<S> v; v.push_back(dec(a)); fire(v); }
	void i2(int a,int b) { std::vector<S> v; v.push_back(dec(a)); v.push_back(dec(b)); fire(v); }
	void i3(int a,int b,int c) { std::vector<S> v; v.push_back(dec(a)); v.push_back(dec(b)); v.push_back(dec(c)); fire(v); }
	// map-style members with other integer parameter types (the generic parse_url_parameter template)
	template<typename T> static S decT(T v) { std::ostringstream o; o.imbue(std::locale::classic()); o << v; return o.str(); }
	#define C20_NUM_MEMBERS(P,T) \
		void P##1(T a) { std::vector<S> v; v.push_back(decT(a)); fire(v); } \
		void P##2(T a,T b) { std::vector<S> v; v.push_back(decT(a)); v.push_back(decT(b)); fire(v); }
	C20_NUM_MEMBERS(u,unsigned)
	C20_NUM_MEMBERS(l,long long)
	C20_NUM_MEMBERS(w,unsigned long long)
	C20_NUM_MEMBERS(h,short)
	C20_NUM_MEMBERS(k,unsigned short)
	void m6(R a,R b,R c,R d,R e,R f) { std::vector<S> v; v.push_back(a); v.push_back(b); v.push_back(c); v.push_back(d); v.push_back(e); v.push_back(f); fire(v); }
};

// ---------------- descriptions ----------------
struct OptD { char type; char kind; std::string pat; bool anym; std::string mpat; int hid; std::vector<int> sel; int msel, kid; };
struct MentD { char type; std::string key, tmpl; int kid; };
struct AppD { std::string root; std::vector<OptD> opts; std::vector<MentD> ments; std::vector<AppD> kids;
              std::vector<std::pair<std::string,std::string> > pre; /* set_value on this node's mapper BEFORE the parent mounts it */ };

struct Toks {
	std::vector<std::string> v; size_t i;
	Toks(std::vector<std::string> const &x) : v(x), i(0) {}
	bool end() const { return i>=v.size(); }
	std::string next() { if(i>=v.size()) throw std::runtime_error("eof"); return v[i++]; }
	std::string const &peek() { static std::string e; return i<v.size()?v[i]:e; }
	void expect(char const *s) { if(next()!=s) throw std::runtime_error(std::string("expected ")+s); }
	int counted(char c) { std::string t=next(); if(t.empty()||t[0]!=c) throw std::runtime_error("count"); return atoi(t.c_str()+1); }
	int num() { return atoi(next().c_str()); }
	std::string hexs() { return unhex(next()); }
	std::string pat() { std::string t=next(); size_t p=t.find(':'); if(p==std::string::npos) throw std::runtime_error("abstract pattern"); return unhex(t.substr(0,p)); }
};

static AppD parse_app(Toks &t)
{
	AppD a;
	t.expect("(");
	a.root=t.hexs();
	int n=t.counted('O');
	for(int i=0;i<n;i++) {
		OptD o; std::string ty=t.next(); o.type=ty[0]; o.anym=true; o.hid=0; o.msel=0; o.kid=0; o.kind='a';
		if(o.type=='H') {
			o.kind=t.next()[0];
			o.pat=t.pat();
			if(t.peek()=="@") { t.next(); o.anym=true; } else { o.anym=false; o.mpat=t.pat(); }
			o.hid=t.num();
			int ns=t.num();
			for(int k=0;k<ns;k++) o.sel.push_back(t.num());
		}
		else if(o.type=='X') { o.pat=t.pat(); o.msel=t.num(); o.kid=t.num(); }
		else throw std::runtime_error("opt");
		a.opts.push_back(o);
	}
	n=t.counted('M');
	for(int i=0;i<n;i++) {
		MentD m; m.type=t.next()[0]; m.key=t.hexs(); m.tmpl=t.hexs(); m.kid=0;
		if(m.type=='C') m.kid=t.num(); else if(m.type!='U') throw std::runtime_error("ment");
		a.ments.push_back(m);
	}
	n=t.counted('K');
	for(int i=0;i<n;i++) a.kids.push_back(parse_app(t));
	t.expect(")");
	return a;
}

// ---------------- the applications ----------------
class Node : public cppcms::application {
public:
	std::vector<Node *> kids;            // owned by cppcms::application (attach)
	std::vector<Rec *> recs;
	std::vector<bool> attached;
	std::string out_;
	bool http_root;                      // set by C20_http.cpp: the application object served through a real connection

	// the http harness needs the handler firings in the response body: application::main is still what runs
	virtual void main(std::string url)
	{
		if(!http_root) { cppcms::application::main(url); return; }
		g_log.clear();
		cppcms::application::main(url);
		if(!g_log.empty()) response().out() << g_log;
	}

	Node(cppcms::service &srv,AppD const &d) : cppcms::application(srv), http_root(false)
	{
		for(size_t i=0;i<d.kids.size();i++) { kids.push_back(new Node(srv,d.kids[i])); attached.push_back(false); }
		try {
			mapper().root(d.root);
			for(size_t i=0;i<d.opts.size();i++) add_opt(d.opts[i]);
			for(size_t i=0;i<d.ments.size();i++) add_ment(d.ments[i]);
			for(size_t i=0;i<kids.size();i++) if(!attached[i]) { attached[i]=true; attach(kids[i]); }
			// values set on this mapper while it is still the topmost one: url_mapper::mount of the parent moves them upwards
			for(size_t i=0;i<d.pre.size();i++) mapper().set_value(d.pre[i].first,d.pre[i].second);
		}
		catch(...) {
			for(size_t i=0;i<kids.size();i++) if(!attached[i]) delete kids[i];
			for(size_t i=0;i<recs.size();i++) delete recs[i];
			throw;
		}
	}
	~Node() { for(size_t i=0;i<recs.size();i++) delete recs[i]; }

	Node *kid(int k) { if(k<0 || size_t(k)>=kids.size()) throw unsupported("kid index"); return kids[k]; }

	void add_opt(OptD const &o)
	{
		if(o.type=='X') {
			Node *k=kid(o.kid);
			if(!attached[o.kid]) { attached[o.kid]=true; attach(k,o.pat,o.msel); }
			else add(*k,o.pat,o.msel);
			return;
		}
		Rec *r=new Rec(); r->hid=o.hid; recs.push_back(r);
		std::vector<int> const &s=o.sel;
		cppcms::url_dispatcher &d=dispatcher();
		if(o.kind=='g') {
			// url_dispatcher::assign_generic: the handler receives the whole booster::cmatch and picks the groups itself
			std::vector<int> sel=s;
			d.assign_generic(o.pat,[r,sel](booster::cmatch const &m) {
				std::vector<std::string> v;
				for(size_t i=0;i<sel.size();i++) v.push_back(m[sel[i]]);
				r->fire(v);
			});
		}
		else if(o.kind=='a') {
			switch(s.size()) {
			case 0: d.assign(o.pat,&Rec::a0,r); break;
			case 1: d.assign(o.pat,&Rec::a1,r,s[0]); break;
			case 2: d.assign(o.pat,&Rec::a2,r,s[0],s[1]); break;
			case 3: d.assign(o.pat,&Rec::a3,r,s[0],s[1],s[2]); break;
			case 4: d.assign(o.pat,&Rec::a4,r,s[0],s[1],s[2],s[3]); break;
			case 5: d.assign(o.pat,&Rec::a5,r,s[0],s[1],s[2],s[3],s[4]); break;
			case 6: d.assign(o.pat,&Rec::a6,r,s[0],s[1],s[2],s[3],s[4],s[5]); break;
			default: throw unsupported("assign arity");
			}
		}
		else if(o.kind=='i') {
			if(o.anym) switch(s.size()) {
			case 1: d.map(o.pat,&Rec::i1,r,s[0]); break;
			case 2: d.map(o.pat,&Rec::i2,r,s[0],s[1]); break;
			case 3: d.map(o.pat,&Rec::i3,r,s[0],s[1],s[2]); break;
			default: throw unsupported("int map arity");
			}
			else switch(s.size()) {
			case 1: d.map(o.mpat,o.pat,&Rec::i1,r,s[0]); break;
			case 2: d.map(o.mpat,o.pat,&Rec::i2,r,s[0],s[1]); break;
			case 3: d.map(o.mpat,o.pat,&Rec::i3,r,s[0],s[1],s[2]); break;
			default: throw unsupported("int map arity");
			}
		}
		#define C20_NUM_MAP(P) { \
			if(o.anym) switch(s.size()) { \
			case 1: d.map(o.pat,&Rec::P##1,r,s[0]); break; \
			case 2: d.map(o.pat,&Rec::P##2,r,s[0],s[1]); break; \
			default: throw unsupported("numeric map arity"); } \
			else switch(s.size()) { \
			case 1: d.map(o.mpat,o.pat,&Rec::P##1,r,s[0]); break; \
			case 2: d.map(o.mpat,o.pat,&Rec::P##2,r,s[0],s[1]); break; \
			default: throw unsupported("numeric map arity"); } }
		else if(o.kind=='u') C20_NUM_MAP(u)
		else if(o.kind=='l') C20_NUM_MAP(l)
		else if(o.kind=='w') C20_NUM_MAP(w)
		else if(o.kind=='h') C20_NUM_MAP(h)
		else if(o.kind=='k') C20_NUM_MAP(k)
		else if(o.kind!='m') throw unsupported("handler kind");
		else if(o.anym) {
			switch(s.size()) {
			case 0: d.map(o.pat,&Rec::m0,r); break;
			case 1: d.map(o.pat,&Rec::m1,r,s[0]); break;
			case 2: d.map(o.pat,&Rec::m2,r,s[0],s[1]); break;
			case 3: d.map(o.pat,&Rec::m3,r,s[0],s[1],s[2]); break;
			case 4: d.map(o.pat,&Rec::m4,r,s[0],s[1],s[2],s[3]); break;
			case 5: d.map(o.pat,&Rec::m5,r,s[0],s[1],s[2],s[3],s[4]); break;
			case 6: d.map(o.pat,&Rec::m6,r,s[0],s[1],s[2],s[3],s[4],s[5]); break;
			default: throw unsupported("map arity");
			}
		}
		else {
			switch(s.size()) {
			case 0: d.map(o.mpat,o.pat,&Rec::m0,r); break;
			case 1: d.map(o.mpat,o.pat,&Rec::m1,r,s[0]); break;
			case 2: d.map(o.mpat,o.pat,&Rec::m2,r,s[0],s[1]); break;
			case 3: d.map(o.mpat,o.pat,&Rec::m3,r,s[0],s[1],s[2]); break;
			case 4: d.map(o.mpat,o.pat,&Rec::m4,r,s[0],s[1],s[2],s[3]); break;
			case 5: d.map(o.mpat,o.pat,&Rec::m5,r,s[0],s[1],s[2],s[3],s[4]); break;
			case 6: d.map(o.mpat,o.pat,&Rec::m6,r,s[0],s[1],s[2],s[3],s[4],s[5]); break;
			default: throw unsupported("map arity");
			}
		}
	}
	void add_ment(MentD const &m)
	{
		if(m.type=='U') {
			if(m.key.empty()) mapper().assign(m.tmpl); else mapper().assign(m.key,m.tmpl);
		}
		else {
			Node *k=kid(m.kid);
			if(!attached[m.kid]) { attached[m.kid]=true; attach(k,m.key,m.tmpl); }
			else add(*k,m.key,m.tmpl);
		}
	}
	Node *at(std::string const &pos)
	{
		if(pos=="r") return this;
		Node *n=this; std::istringstream ss(pos); std::string tok;
		while(std::getline(ss,tok,'.')) n=n->kid(atoi(tok.c_str()));
		return n;
	}
	void set_ctx(std::string const &host,std::string const &script,std::string const &path,std::string const &method)
	{
		std::map<std::string,std::string> env;
		env["HTTP_HOST"]=host; env["SCRIPT_NAME"]=script; env["PATH_INFO"]=path; env["REQUEST_METHOD"]=method;
		booster::shared_ptr<dummy_api> api(new dummy_api(service(),env,out_));
		booster::shared_ptr<cppcms::http::context> cnt(new cppcms::http::context(api));
		assign_context(cnt);
		response().io_mode(cppcms::http::response::normal);
		out_.clear();
	}
	// application::main with a request context; returns the printed outcome
	std::string run_main(std::string const &url,std::string const &host,std::string const &script,std::string const &path,std::string const &method)
	{
		g_log.clear();
		bool threw=false;
		set_ctx(host,script,path,method);
		try { main(url); response().finalize(); } catch(std::exception const &) { threw=true; }
		release_context();
		return outcome(threw,out_.find("Status: 404")!=std::string::npos);
	}
	static std::string outcome(bool threw,bool nf)
	{
		std::string r=g_log;
		if(nf) r+=(r.empty()?"N":" N");
		if(threw) r+=(r.empty()?"T":" T");
		if(r.empty()) r="?";
		return r;
	}
	std::string run_dispatch_noctx(std::string const &url)
	{
		g_log.clear();
		bool threw=false, ok=false;
		try { ok=dispatcher().dispatch(url); } catch(std::exception const &) { threw=true; }
		std::string r=outcome(threw,!ok && !threw);
		if(ok && g_log.empty()) r="?ok";
		return r;
	}
	std::string run_map(std::string const &key,std::vector<std::string> const &p,bool &ok)
	{
		std::ostringstream ss;
		cppcms::url_mapper &m=mapper();
		ok=true;
		try {
			switch(p.size()) {
			case 0: m.map(ss,key); break;
			case 1: m.map(ss,key,p[0]); break;
			case 2: m.map(ss,key,p[0],p[1]); break;
			case 3: m.map(ss,key,p[0],p[1],p[2]); break;
			case 4: m.map(ss,key,p[0],p[1],p[2],p[3]); break;
			case 5: m.map(ss,key,p[0],p[1],p[2],p[3],p[4]); break;
			case 6: m.map(ss,key,p[0],p[1],p[2],p[3],p[4],p[5]); break;
			default: throw unsupported("map params");
			}
		}
		catch(cppcms::cppcms_error const &) { ok=false; if(!ss.str().empty()) return "PARTIAL:"+hex(ss.str()); return ""; }
		return ss.str();
	}
};

static cppcms::service &service_for(bool throws)
{
	static cppcms::service *srv[2]={0,0};
	if(!srv[throws]) {
		cppcms::json::value cfg;
		cfg["localization"]["locales"][0]="en_US.ISO-8859-1";
		cfg["misc"]["invalid_url_throws"]=throws;
		srv[throws]=new cppcms::service(cfg);
	}
	return *srv[throws];
}

static std::string run_tree(Toks &t)
{
	bool throws=t.next()=="1";
	int nv=t.counted('V');
	std::vector<std::pair<std::string,std::string> > vals;
	for(int i=0;i<nv;i++) { std::string k=t.hexs(); std::string v=t.hexs(); vals.push_back(std::make_pair(k,v)); }
	// W<n> (<pos> <key> <value>)*: values set on the mapper of node <pos> before its parent mounts it
	std::vector<std::pair<std::string,std::pair<std::string,std::string> > > pre;
	if(!t.peek().empty() && t.peek()[0]=='W') {
		int nw=t.counted('W');
		for(int i=0;i<nw;i++) { std::string pos=t.next(); std::string k=t.hexs(); std::string v=t.hexs(); pre.push_back(std::make_pair(pos,std::make_pair(k,v))); }
	}
	AppD d=parse_app(t);
	for(size_t i=0;i<pre.size();i++) {
		AppD *n=&d;
		if(pre[i].first!="r") {
			std::istringstream ss(pre[i].first); std::string tok;
			while(std::getline(ss,tok,'.')) { int k=atoi(tok.c_str()); if(k<0||size_t(k)>=n->kids.size()) throw std::runtime_error("W position"); n=&n->kids[k]; }
		}
		n->pre.push_back(pre[i].second);
	}
	t.expect("Q");
	// every change of a helper value, in order: replayed on the twin tree when that is created
	std::vector<std::vector<std::string> > hist;
	cppcms::service &srv=service_for(throws);
	std::unique_ptr<Node> root;
	try { root.reset(new Node(srv,d)); }
	catch(unsupported const &e) { return std::string("UNSUPPORTED-HARNESS ")+e.what(); }
	catch(cppcms::cppcms_error const &) { return "CONSTRUCT-ERROR"; }
	catch(booster::regex_error const &) { return "REGEX-ERROR"; }
	for(size_t i=0;i<vals.size();i++) root->mapper().set_value(vals[i].first,vals[i].second);
	std::vector<std::pair<std::string,std::string> > const vals0=vals;
	std::ostringstream out;
	bool first=true;
	std::unique_ptr<Node> alt;
	static const std::string invalid_marker="/this_is_an_invalid_url_generated_by_url_mapper";
	while(!t.end()) {
		std::string q=t.next();
		std::string r;
		if(q=="d") {
			std::string c=t.next(); std::string url=t.hexs();
			if(c=="~") r=root->run_dispatch_noctx(url);
			else r=root->run_main(url,"h","/s",url,unhex(c));
		}
		else if(q=="m" || q=="x") {
			std::string pos=t.next(); std::string key=t.hexs();
			if(q=="x") t.next();
			int np=t.num(); std::vector<std::string> p; for(int i=0;i<np;i++) p.push_back(t.hexs());
			bool ok; std::string u=root->at(pos)->run_map(key,p,ok);
			if(!ok) r=u.empty()?"E":"E "+u;
			else {
				r="U "+hex(u);
				if(q=="x") r+=" "+root->run_main(u,"h","/s",u,"GET");
			}
			// the same call on an identical tree living in a service with the other setting of
			// misc.invalid_url_throws: the switch may only turn an exception into the marker url
			if(!alt.get()) {
				alt.reset(new Node(service_for(!throws),d));
				for(size_t i=0;i<vals0.size();i++) alt->mapper().set_value(vals0[i].first,vals0[i].second);
				for(size_t i=0;i<hist.size();i++) {
					if(hist[i][0]=="s") alt->at(hist[i][1])->mapper().set_value(hist[i][2],hist[i][3]);
					else alt->at(hist[i][1])->mapper().clear_value(hist[i][2]);
				}
			}
			bool ok2; std::string u2=alt->at(pos)->run_map(key,p,ok2);
			bool same;
			if(throws) same = ok ? (ok2 && u2==u) : (ok2 && u2==invalid_marker);      // alt is the no-throw one
			else       same = ok2 ? (ok && u==u2) : (u2.empty() && ok && u==invalid_marker);
			if(!same) r+=std::string(" ! ALT-DIFF ")+(ok2?"U "+hex(u2):(u2.empty()?std::string("E"):"E "+u2));
		}
		else if(q=="sw" || q=="cw") {
			// url_mapper::set_value / clear_value called on the mapper of ANY node of the tree: the value lands in root_mapper()
			// (the harness records it under the root; the generator uses this only on trees whose nodes are all mounted in
			// their parent's mapper)
			std::string pos=t.next();
			std::string k=t.hexs(); std::string v; if(q=="sw") v=t.hexs();
			for(size_t i=0;i<vals.size();) { if(vals[i].first==k) vals.erase(vals.begin()+i); else i++; }
			{ std::vector<std::string> h; h.push_back(q=="sw"?"s":"c"); h.push_back(pos); h.push_back(k); h.push_back(v); hist.push_back(h); }
			if(q=="sw") {
				vals.push_back(std::make_pair(k,v));
				root->at(pos)->mapper().set_value(k,v);
				if(alt.get()) alt->at(pos)->mapper().set_value(k,v);
				r="s";
			}
			else {
				root->at(pos)->mapper().clear_value(k);
				if(alt.get()) alt->at(pos)->mapper().clear_value(k);
				r="c";
			}
		}
		else if(q=="sv" || q=="cv") {
			// url_mapper::set_value / clear_value between the queries (on the root mapper, and on the twin tree)
			std::string k=t.hexs(); std::string v; if(q=="sv") v=t.hexs();
			for(size_t i=0;i<vals.size();) { if(vals[i].first==k) vals.erase(vals.begin()+i); else i++; }
			{ std::vector<std::string> h; h.push_back(q=="sv"?"s":"c"); h.push_back("r"); h.push_back(k); h.push_back(v); hist.push_back(h); }
			if(q=="sv") {
				vals.push_back(std::make_pair(k,v));
				root->mapper().set_value(k,v);
				if(alt.get()) alt->mapper().set_value(k,v);
				r="s";
			}
			else {
				root->mapper().clear_value(k);
				if(alt.get()) alt->mapper().clear_value(k);
				r="c";
			}
		}
		else throw std::runtime_error("query "+q);
		if(!first) out<<" | ";
		first=false;
		out<<r;
	}
	return out.str();
}

// ---------------- pools ----------------
class DescPool : public cppcms::application_specific_pool {
public:
	AppD desc;
	DescPool(AppD const &d) : desc(d) {}
	virtual cppcms::application *new_application(cppcms::service &srv) { return new Node(srv,desc); }
};

static booster::regex rx(std::string const &tok,bool &present)
{
	if(tok=="-") { present=false; return booster::regex(); }
	size_t p=tok.find(':'); if(p==std::string::npos) throw std::runtime_error("abstract pattern");
	present=true; return booster::regex(unhex(tok.substr(0,p)));
}

// A mount point read from "{ <host> <script> <path> <group> <p|s> }".  The same mount point can be written with several of the
// public constructors / setters of cppcms::mount_point; which spelling is used is derived from the text of the tokens, so a case
// always builds the same object, and across cases every constructor and setter is exercised:
//   0: the five-argument constructor (selection, host, script, path, group) with booster::regex objects
//   1: the convenience constructor that fits the present patterns (path+group / script / script+path+group /
//      selection+selected+group / selection+non+selected+group / selection+non), the host through the setter
//   2: the default constructor followed by the setters, then copied through operator=
static std::string rx_text(std::string const &tok)
{
	size_t p=tok.find(':'); if(p==std::string::npos) throw std::runtime_error("abstract pattern");
	return unhex(tok.substr(0,p));
}
static cppcms::mount_point make_mp(std::string const &htok,std::string const &stok,std::string const &ptok,int g,std::string const &sel)
{
	bool ph,ps,pp;
	booster::regex h=rx(htok,ph), s=rx(stok,ps), p=rx(ptok,pp);
	cppcms::mount_point::selection_type st=sel=="p"?cppcms::mount_point::match_path_info:cppcms::mount_point::match_script_name;
	unsigned hash=g*7+(sel=="p"?1:0);
	std::string all=htok+" "+stok+" "+ptok;
	for(size_t i=0;i<all.size();i++) hash=hash*31+(unsigned char)all[i];
	int variant=hash%3;
	bool psel=(st==cppcms::mount_point::match_path_info)?pp:ps;       // the selected pattern is present
	bool pnon=(st==cppcms::mount_point::match_path_info)?ps:pp;       // the other one is present
	std::string tsel=psel?rx_text(st==cppcms::mount_point::match_path_info?ptok:stok):std::string();
	std::string tnon=pnon?rx_text(st==cppcms::mount_point::match_path_info?stok:ptok):std::string();
	if(variant==1) {
		bool done=true;
		cppcms::mount_point mp;
		bool alt=(hash/3)%2==0;
		if(st==cppcms::mount_point::match_path_info && alt && psel && !pnon) mp=cppcms::mount_point(tsel,g);
		else if(st==cppcms::mount_point::match_path_info && alt && !psel && pnon && g==0) mp=cppcms::mount_point(tnon);
		else if(st==cppcms::mount_point::match_path_info && alt && psel && pnon) mp=cppcms::mount_point(tnon,tsel,g);
		else if(psel && !pnon) mp=cppcms::mount_point(st,tsel,g);
		else if(psel && pnon) mp=cppcms::mount_point(st,tnon,tsel,g);
		else if(!psel && pnon && g==0) mp=cppcms::mount_point(st,tnon);
		else if(!psel && !pnon && g==0 && st==cppcms::mount_point::match_path_info) mp=cppcms::mount_point();
		else done=false;
		if(done) {
			if(ph) mp.host(h);
			return mp;
		}
		variant=2;
	}
	if(variant==2) {
		cppcms::mount_point mp;
		mp.selection(st);
		mp.group(g);
		if(ph) mp.host(h);
		if(ps) mp.script_name(s);
		if(pp) mp.path_info(p);
		cppcms::mount_point copy;
		copy=mp;
		return copy;
	}
	return cppcms::mount_point(st,h,s,p,g);
}

static std::string run_pools(Toks &t)
{
	int n=t.counted('N');
	cppcms::service &srv=service_for(true);
	std::vector<cppcms::mount_point> mps;
	std::vector<booster::shared_ptr<cppcms::application_specific_pool> > pools;
	std::vector<AppD> descs;
	for(int i=0;i<n;i++) {
		t.expect("{");
		std::string htok=t.next(), stok=t.next(), ptok=t.next();
		int g=t.num();
		std::string sel=t.next();
		t.expect("}");
		cppcms::mount_point mp=make_mp(htok,stok,ptok,g,sel);
		mps.push_back(mp);
		AppD d=parse_app(t);
		descs.push_back(d);
		pools.push_back(booster::shared_ptr<cppcms::application_specific_pool>(new DescPool(d)));
	}
	t.expect("Q");
	struct NodeVec { std::vector<Node *> v; ~NodeVec(){ for(size_t i=0;i<v.size();i++) delete v[i]; } Node *&operator[](size_t i){ return v[i]; } } nodes;
	nodes.v.resize(n,0);
	for(int i=0;i<n;i++) srv.applications_pool().mount(pools[i],mps[i],cppcms::app::synchronous);
	std::ostringstream out;
	bool first=true;
	try {
		while(!t.end()) {
			std::string q=t.next();
			std::string r;
			if(q=="q") {
				std::string h=t.hexs(), s=t.hexs(), p=t.hexs(), m=t.hexs();
				std::string matched;
				booster::shared_ptr<cppcms::application_specific_pool> pool=
					srv.applications_pool().get_application_specific_pool(h.c_str(),s.c_str(),p.c_str(),matched);
				if(!pool) r="-";
				else {
					int idx=-1;
					for(int i=0;i<n;i++) if(pools[i]==pool) idx=i;
					std::ostringstream o; o<<idx<<" "<<hex(matched)<<" ";
					// application_specific_pool::get is private to the library: the application object the
					// pool would hand out is built here from the same description
					if(idx<0) o<<"NOAPP";
					else {
						if(!nodes[idx]) nodes[idx]=new Node(srv,descs[idx]);
						o<<nodes[idx]->run_main(matched,h.c_str(),s.c_str(),p.c_str(),m);
					}
					r=o.str();
				}
			}
			else if(q=="k") {
				int i=t.num(); std::string h=t.hexs(), s=t.hexs(), p=t.hexs();
				if(i<0||i>=n) throw std::runtime_error("mp index");
				std::pair<bool,std::string> res=mps[i].match(h,s,p);
				r=res.first?("+ "+hex(res.second)):"-";
			}
			else throw std::runtime_error("query "+q);
			if(!first) out<<" | ";
			first=false;
			out<<r;
		}
	}
	catch(...) {
		for(int i=0;i<n;i++) srv.applications_pool().unmount(pools[i]);
		throw;
	}
	for(int i=0;i<n;i++) srv.applications_pool().unmount(pools[i]);
	return out.str();
}

#ifndef C20_ROUTING_NO_MAIN
int main()
{
	std::string line;
	while(std::getline(std::cin,line)) {
		std::vector<std::string> v=split(line);
		std::string r;
		try {
			Toks t(v);
			std::string kind=t.next();
			if(kind=="T") r=run_tree(t);
			else if(kind=="G") r=run_pools(t);
			else r="BAD-CASE";
		}
		catch(std::exception const &e) { r=std::string("HARNESS-EXN ")+e.what(); }
		std::cout<<r<<"\n";
	}
	std::cout.flush();
	return 0;
}
#endif
