// C11 correspondence harness: cppcms::json parse / write / typed extraction of the current tree.
// One case per line (see checks/C11.py for the case language), one answer line per case.
//   p <full> <hexdoc>      parse through every entry point (char range, istream, operator>>), pre-filled target
//   w <tree>               build the tree through the API, save compact/readable under several locales, reload
//   wd <tree>              same, compact layout only (deep trees: the readable text grows quadratically)
//   g <16 hex digits>      typed extraction get_value<T> of the number with that bit pattern, every arithmetic T
//   q <hex>                to_json(string) through the string and the stream path
// Tree notation (also used for answers): U undefined, N null, T, F, D<16 hex bits>, S<hex|->, [a,b], {S<hex>:v,...}
#include <cppcms/json.h>
#include <sstream>
#include <locale>
#include <limits>
#include <string.h>
#include <stdint.h>
#include <stdio.h>
#include "hexio.h"
using namespace hx;
namespace json = cppcms::json;

struct comma_punct : public std::numpunct<char> {
	char do_decimal_point() const { return ','; }
	char do_thousands_sep() const { return '.'; }
	std::string do_grouping() const { return "\3"; }
};
static std::locale comma_loc() { static std::locale l(std::locale::classic(), new comma_punct()); return l; }
static bool is_comma(std::locale const &l) { return std::use_facet<std::numpunct<char> >(l).decimal_point() == ','; }

static std::string bits(double d) { uint64_t u; memcpy(&u, &d, 8); char b[20]; snprintf(b, sizeof(b), "%016llx", (unsigned long long)u); return b; }
static double unbits(std::string const &s) { uint64_t u = strtoull(s.c_str(), 0, 16); double d; memcpy(&d, &u, 8); return d; }

static void dump(json::value const &v, std::string &o)
{
	switch (v.type()) {
	case json::is_undefined: o += 'U'; break;
	case json::is_null: o += 'N'; break;
	case json::is_boolean: o += v.boolean() ? 'T' : 'F'; break;
	case json::is_number: o += 'D'; o += bits(v.number()); break;
	case json::is_string: o += 'S'; o += hex(v.str()); break;
	case json::is_array: {
		json::array const &a = v.array();
		o += '[';
		for (size_t i = 0; i < a.size(); i++) { if (i) o += ','; dump(a[i], o); }
		o += ']';
		break; }
	case json::is_object: {
		json::object const &ob = v.object();
		o += '{';
		bool first = true;
		for (json::object::const_iterator p = ob.begin(); p != ob.end(); ++p) {
			if (!first) o += ',';
			first = false;
			o += 'S'; o += hex(p->first.str()); o += ':'; dump(p->second, o);
		}
		o += '}';
		break; }
	}
}
static std::string dump(json::value const &v) { std::string o; dump(v, o); return o; }

// build a value through the public API from the tree notation
struct builder {
	std::string const &s; size_t i; bool bad;
	builder(std::string const &x) : s(x), i(0), bad(false) {}
	std::string hexrun() { size_t j = i; while (j < s.size() && ((s[j] >= '0' && s[j] <= '9') || (s[j] >= 'a' && s[j] <= 'f') || s[j] == '-')) j++; std::string r = unhex(s.substr(i, j - i)); i = j; return r; }
	void val(json::value &v)
	{
		if (i >= s.size()) { bad = true; return; }
		char c = s[i++];
		switch (c) {
		case 'U': v.undefined(); break;
		case 'N': v.null(); break;
		case 'T': v.boolean(true); break;
		case 'F': v.boolean(false); break;
		case 'D': v.number(unbits(s.substr(i, 16))); i += 16; break;
		case 'S': v.str(hexrun()); break;
		case '[': {
			v.array(json::array());
			if (i < s.size() && s[i] == ']') { i++; break; }
			for (size_t n = 0;; n++) {
				v.array().push_back(json::value());
				val(v.array().back());
				if (bad || i >= s.size()) { bad = true; return; }
				if (s[i] == ',') { i++; continue; }
				if (s[i] == ']') { i++; break; }
				bad = true; return;
			}
			break; }
		case '{': {
			v.object(json::object());
			if (i < s.size() && s[i] == '}') { i++; break; }
			for (;;) {
				if (i >= s.size() || s[i] != 'S') { bad = true; return; }
				i++;
				std::string k = hexrun();
				if (i >= s.size() || s[i] != ':') { bad = true; return; }
				i++;
				val(v[k]);
				if (bad || i >= s.size()) { bad = true; return; }
				if (s[i] == ',') { i++; continue; }
				if (s[i] == '}') { i++; break; }
				bad = true; return;
			}
			break; }
		default: bad = true;
		}
	}
};

static json::value sentinel()
{
	json::value v;
	v["k"][0] = 1.5;
	v["k"][1] = "x";
	v["z"] = json::null();
	return v;
}

struct presult { bool ok; int line; long pos; std::string tree; bool unchanged; };
static std::string show(presult const &r)
{
	char b[64];
	if (r.ok) { snprintf(b, sizeof(b), "ok %ld ", r.pos); return b + r.tree; }
	snprintf(b, sizeof(b), "fail %d %d", r.line, r.unchanged ? 1 : 0);
	return b;
}
static presult parse_range(std::string const &doc, bool full)
{
	presult r; json::value t = sentinel(); std::string before = dump(t);
	char const *b = doc.data(), *e = b + doc.size(); r.line = -1;
	r.ok = t.load(b, e, full, &r.line);
	r.pos = b - doc.data();
	r.tree = dump(t); r.unchanged = r.tree == before;
	return r;
}
static presult parse_stream(std::string const &doc, bool full, bool comma, bool &locale_kept)
{
	presult r; json::value t = sentinel(); std::string before = dump(t);
	std::istringstream ss(doc);
	if (comma) ss.imbue(comma_loc());
	r.line = -1;
	r.ok = t.load(ss, full, &r.line);
	r.pos = (long)ss.rdbuf()->pubseekoff(0, std::ios_base::cur, std::ios_base::in);
	r.tree = dump(t); r.unchanged = r.tree == before;
	locale_kept = is_comma(ss.getloc()) == comma;
	return r;
}
static presult parse_op(std::string const &doc, bool &failbit)
{
	presult r; json::value t = sentinel(); std::string before = dump(t);
	std::istringstream ss(doc);
	ss >> t;
	r.ok = !ss.fail(); failbit = ss.fail(); r.line = -1;
	ss.clear();
	r.pos = (long)ss.rdbuf()->pubseekoff(0, std::ios_base::cur, std::ios_base::in);
	r.tree = dump(t); r.unchanged = r.tree == before;
	return r;
}

// reload a text strictly; answer "=" when the reloaded tree is bit-identical to `ref`, "F" when rejected, else the tree
static std::string reload(std::string const &text, std::string const &ref, json::value *out = 0)
{
	json::value t = sentinel();
	char const *b = text.data(), *e = b + text.size(); int line = -1;
	if (!t.load(b, e, true, &line)) return "F";
	if (out) *out = t;
	std::string d = dump(t);
	return d == ref ? std::string("=") : d;
}

template<typename T> static std::string gi(json::value const &v)
{
	try {
		T r = v.get_value<T>();
		char b[40];
		if (std::numeric_limits<T>::is_signed) snprintf(b, sizeof(b), "%lld", (long long)r);
		else snprintf(b, sizeof(b), "%llu", (unsigned long long)r);
		return b;
	} catch (json::bad_value_cast const &) { return "X"; }
}

int main()
{
	// self-test of the locale used for the locale-independence paths
	{
		std::ostringstream o; o.imbue(comma_loc()); o << 1234.5;
		if (o.str() != "1.234,5") { printf("HARNESS-BROKEN locale facet prints %s\n", o.str().c_str()); return 2; }
	}
	std::string line;
	while (std::getline(std::cin, line)) {
		std::vector<std::string> v = split(line);
		std::string out;
		if (v.size() >= 3 && v[0] == "p") {
			bool full = v[1] == "1";
			std::string doc = unhex(v[2]);
			presult a = parse_range(doc, full);
			bool k1 = true, k2 = true, fb = false;
			presult b = parse_stream(doc, full, false, k1);
			presult c = parse_stream(doc, full, true, k2);
			std::locale::global(comma_loc());
			presult d = parse_range(doc, full);
			std::locale::global(std::locale::classic());
			std::string sa = show(a);
			bool same = sa == show(b) && sa == show(c) && sa == show(d) && k1 && k2;
			if (!full) {
				presult e = parse_op(doc, fb);
				if (e.ok != a.ok || e.pos != a.pos && a.ok || e.tree != a.tree) same = false;
			}
			if (!same) out = "p PATHS-DIFFER range=" + sa + " stream=" + show(b) + " stream-comma=" + show(c) + " global-comma=" + show(d) + (k1 && k2 ? "" : " LOCALE-NOT-RESTORED");
			else out = "p " + sa;
		}
		else if (v.size() == 2 && (v[0] == "w" || v[0] == "wd")) {
			bool both = v[0] == "w";   // wd: compact layout only (deep trees)
			json::value t;
			builder bl(v[1]); bl.val(t);
			if (bl.bad || bl.i != v[1].size()) { out = v[0] + " BAD-TREE"; }
			else {
				std::string ref = dump(t);
				std::string txt[2]; bool thrown = false, loc = true;
				for (int how = 0; how < (both ? 2 : 1) && !thrown; how++) {
					try {
						txt[how] = t.save(how ? json::readable : json::compact);
						// same under a global comma locale (internal ostringstream picks the global locale)
						std::locale::global(comma_loc());
						std::string t2;
						try { t2 = t.save(how ? json::readable : json::compact); } catch (...) { std::locale::global(std::locale::classic()); throw; }
						std::locale::global(std::locale::classic());
						// explicit stream with the comma locale, via save(ostream) and operator<<
						std::ostringstream o3; o3.imbue(comma_loc());
						t.save(o3, how ? json::readable : json::compact);
						bool kept = is_comma(o3.getloc());
						std::ostringstream o4; o4.imbue(comma_loc());
						if (how == 0) o4 << t; else t.save(o4, json::readable);
						std::ostringstream o5; o5.imbue(comma_loc()); o5 << 1234.5;
						if (t2 != txt[how] || o3.str() != txt[how] || o4.str() != txt[how] || !kept || o5.str() != "1.234,5") loc = false;
					} catch (json::bad_value_cast const &) { thrown = true; }
				}
				if (thrown) out = v[0] + " throw";
				else {
					json::value v1;
					std::string rc = reload(txt[0], ref, &v1);
					std::string rr = both ? reload(txt[1], ref) : std::string("-");
					std::string r2 = "-";
					if (rc != "F") {
						std::string ref1 = dump(v1);
						r2 = reload(v1.save(json::compact), ref1);
						if (both) {
							std::string r2r = reload(v1.save(json::readable), ref1);
							if (r2r != r2) r2 = "LAYOUTS-DIFFER";
						}
					}
					// operator== of the library on the reloaded value (should agree with bit equality for finite numbers)
					std::string eq = "-";
					if (rc != "F") eq = (v1 == t) ? "1" : "0";
					out = v[0] + " C=" + hex(txt[0]) + " R=" + (both ? hex(txt[1]) : std::string("-")) + " loc=" + (loc ? "1" : "0") + " rc=" + rc + " rr=" + rr + " r2=" + r2 + " eq=" + eq;
				}
			}
		}
		else if (v.size() == 2 && v[0] == "g") {
			json::value t; t.number(unbits(v[1]));
			out = "g";
			out += " c=" + gi<char>(t) + " uc=" + gi<unsigned char>(t) + " sc=" + gi<signed char>(t) + " wc=" + gi<wchar_t>(t);
			out += " s=" + gi<short>(t) + " us=" + gi<unsigned short>(t) + " i=" + gi<int>(t) + " u=" + gi<unsigned int>(t);
			out += " l=" + gi<long>(t) + " ul=" + gi<unsigned long>(t) + " ll=" + gi<long long>(t) + " ull=" + gi<unsigned long long>(t);
			try { float f = t.get_value<float>(); uint32_t u; memcpy(&u, &f, 4); char b[16]; snprintf(b, sizeof(b), "%08x", u); out += std::string(" f=") + b; }
			catch (json::bad_value_cast const &) { out += " f=X"; }
			try { double d = t.get_value<double>(); out += " d=" + bits(d); }
			catch (json::bad_value_cast const &) { out += " d=X"; }
		}
		else if (v.size() == 2 && v[0] == "q") {
			std::string s = unhex(v[1]);
			std::string r1 = json::to_json(s);
			std::string r2 = json::to_json(s.data(), s.data() + s.size());
			std::ostringstream o3; json::to_json(s, o3);
			std::ostringstream o4; o4.imbue(comma_loc()); json::to_json(s.data(), s.data() + s.size(), o4);
			json::value sv; sv.str(s);
			if (r1 != r2 || r1 != o3.str() || r1 != o4.str() || r1 != sv.save()) out = "q PATHS-DIFFER";
			else out = "q " + hex(r1);
		}
		else out = "BAD-CASE";
		fputs(out.c_str(), stdout); fputc('\n', stdout);
	}
	return 0;
}
