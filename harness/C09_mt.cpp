// C09 multi-thread harness: N threads run operation sequences against ONE cppcms::impl::thread_cache_factory(limit)
// cache (mem_cache<thread_settings> of the CURRENT tree: checks/C09.py compiles /repo/src/cache_storage.cpp and
// /repo/booster/lib/thread/src/pthread.cpp into this executable with -fsanitize=thread, so every access inside the
// cache and every lock operation is seen by ThreadSanitizer; the rest comes from libcppcms/libbooster).
// time() is interposed (constant clock given in the case) so that deadlines are deterministic.
//
// case line:   mt <mode> <limit> <now> <jitter-seed> <prefill op> ... ; <op> <op> ... ; <op> ...
//   the ops before the first `;` are run by the main thread before the others start; then one `;` group per thread
//   mode  r = race mode: threads share nothing but the cache and a start barrier (no time stamps: happens-before race
//             detection is then not masked by harness synchronisation)
//         l = history mode: every call is bracketed by ticks of one seq_cst atomic counter (invocation / response stamps)
//   op    S:<key>:<value>:<trig+trig..|.>:<deadline>:<gen|->  store    F:<key> fetch    R:<trigger> rise
//         D:<key> remove    C clear    Z stats           (strings hex, `-` = empty, value may be #<len>x<hexprefix>)
//         X:<key>:<value>:<trigs>:<deadline>:<gen|->  store during which the FIRST allocation made by the calling thread throws
//             std::bad_alloc (global operator new is replaced below; the fault is armed thread-locally right before the call).
//             With a value of >= 16 bytes that allocation is the copy of the value in store()'s first try block, so the call takes
//             the path  catch(std::bad_alloc) { remove(key); return; }.  Answer `x` when the fault fired, `s` when it did not.
// other lines: `probe` (build self-description), `hash <hexkey> ...` (string_hash of each key, for collision sets)
// answer line: tsan=<reports>[:<kinds>] ; <inv>,<res>,<result> ... ; ...     (group 0 = prefill, then one group per thread)
//   result: h:<value>:<sorted triggers>:<deadline>:<generation> | m | s | x | r | d | c | z:<keys>/<triggers>
//   values longer than 32 bytes are printed as #<len>.<fnv1a64>.  A run that does not finish in time prints HANG and exits.
#include "cache_storage.h"
#include "base_cache.h"
#include "hash_map.h"
#include <booster/intrusive_ptr.h>
#include <set>
#include <map>
#include <atomic>
#include <string.h>
#include <stdlib.h>
#include <unistd.h>
#include <pthread.h>
#include <sched.h>
#include <time.h>
#include "hexio.h"
using namespace hx;

#if defined(__has_feature)
#  if __has_feature(thread_sanitizer)
#    define C09_TSAN 1
#  endif
#endif
#if defined(__SANITIZE_THREAD__) && !defined(C09_TSAN)
#  define C09_TSAN 1
#endif

// ---- allocation fault injection: the next operator new call of the thread that armed it throws std::bad_alloc ----
#include <new>
static __thread int fail_new_armed = 0;
static __thread int fail_new_fired = 0;
static inline void *c09_alloc(size_t n)
{
	if(fail_new_armed) { fail_new_armed = 0; fail_new_fired = 1; throw std::bad_alloc(); }
	void *p = malloc(n ? n : 1);
	if(!p) throw std::bad_alloc();
	return p;
}
void *operator new(size_t n) { return c09_alloc(n); }
void *operator new[](size_t n) { return c09_alloc(n); }
void *operator new(size_t n,std::nothrow_t const &) noexcept { return malloc(n ? n : 1); }
void *operator new[](size_t n,std::nothrow_t const &) noexcept { return malloc(n ? n : 1); }
void operator delete(void *p) noexcept { free(p); }
void operator delete[](void *p) noexcept { free(p); }
void operator delete(void *p,size_t) noexcept { free(p); }
void operator delete[](void *p,size_t) noexcept { free(p); }
void operator delete(void *p,std::nothrow_t const &) noexcept { free(p); }
void operator delete[](void *p,std::nothrow_t const &) noexcept { free(p); }
// With clang's STATIC TSan runtime these definitions do not take effect (the runtime's own operators are linked in first; that build
// needs -Wl,--allow-multiple-definition): `probe` reports fault=inert and checks/C09.py runs the cases with X operations through a
// second build of this file (g++ -fsanitize=thread: shared libtsan, the definitions here preempt; malloc/free stay intercepted).
static volatile size_t fault_sink;
static bool fault_works()
{
	std::string a(100,'x');
	fail_new_fired=0; fail_new_armed=1;
	try { std::string b(a); fault_sink=b.size(); } catch(std::bad_alloc const &) {}
	fail_new_armed=0;
	return fail_new_fired!=0;
}

static volatile time_t vnow = 1000;
extern "C" time_t time(time_t *t) { time_t v = vnow; if(t) *t = v; return v; }

// ---- ThreadSanitizer report hook: count genuine reports, remember their kinds ----
static std::atomic<int> tsan_reports(0);
static char tsan_kinds[256];
static std::atomic<int> tsan_kinds_len(0);
#ifdef C09_TSAN
extern "C" int __tsan_get_report_data(void *report, const char **description, int *count, int *stack_count, int *mop_count,
                                      int *loc_count, int *mutex_count, int *thread_count, int *unique_tid_count,
                                      void **sleep_trace, unsigned long trace_size);
extern "C" void __tsan_on_report(void *report)
{
	const char *d = 0; int a,b,c,e,f,g,h; void *tr[1];
	__tsan_get_report_data(report,&d,&a,&b,&c,&e,&f,&g,&h,tr,1);
	if(!d) d = "unknown";
	// thread leaks / signal-unsafe calls are about the harness, not about the cache
	if(strstr(d,"thread-leak") || strstr(d,"signal")) return;
	tsan_reports++;
	size_t n = strlen(d);
	int pos = tsan_kinds_len.fetch_add((int)n+1);
	if(pos + n + 1 < sizeof(tsan_kinds)) { memcpy(tsan_kinds+pos,d,n); tsan_kinds[pos+n] = ','; }
}
static const char *tsan_mode = "on";
#else
static const char *tsan_mode = "off";
#endif

typedef booster::intrusive_ptr<cppcms::impl::base_cache> cache_ptr;

static std::vector<std::string> splitc(std::string const &s,char sep)
{
	std::vector<std::string> v; std::string cur;
	for(size_t i=0;i<s.size();i++) { if(s[i]==sep) { v.push_back(cur); cur.clear(); } else cur+=s[i]; }
	v.push_back(cur);
	return v;
}
static std::string value_of(std::string const &t)
{
	if(!t.empty() && t[0]=='#') {
		size_t x=t.find('x');
		size_t len=strtoul(t.substr(1,x-1).c_str(),0,10);
		std::string r=unhex(t.substr(x+1));
		if(r.size()<len) r.append(len-r.size(),'v');
		return r;
	}
	return unhex(t);
}
static std::string valtok(std::string const &v)
{
	if(v.size()<=32) return hex(v);
	unsigned long long h=14695981039346656037ULL;
	for(size_t i=0;i<v.size();i++) { h^=(unsigned char)v[i]; h*=1099511628211ULL; }
	char buf[64]; snprintf(buf,sizeof(buf),"#%zu.%016llx",v.size(),h);
	return buf;
}
static std::set<std::string> trigset(std::string const &t)
{
	std::set<std::string> s;
	if(t==".") return s;
	std::vector<std::string> v=splitc(t,'+');
	for(size_t i=0;i<v.size();i++) s.insert(unhex(v[i]));
	return s;
}
static std::string trigtok(std::set<std::string> const &s)
{
	if(s.empty()) return ".";
	std::string r;
	for(std::set<std::string>::const_iterator p=s.begin();p!=s.end();++p) { if(p!=s.begin()) r+='+'; r+=hex(*p); }
	return r;
}

struct op_t {
	char kind;                    // S X F R D C Z
	std::string key,val;
	std::set<std::string> trigs;
	time_t deadline;
	bool has_gen;
	cppcms::uint64_t gen;
	op_t() : kind('?'),deadline(0),has_gen(false),gen(0) {}
};
struct res_t {
	unsigned long long inv,res;
	char kind;                    // h m s r d c z
	std::string val;
	std::set<std::string> trigs;
	time_t deadline;
	cppcms::uint64_t gen;
	unsigned keys,ntrig;
	res_t() : inv(0),res(0),kind('?'),deadline(0),gen(0),keys(0),ntrig(0) {}
};

static bool parse_op(std::string const &tok,op_t &o)
{
	std::vector<std::string> f=splitc(tok,':');
	if((f[0]=="S" || f[0]=="X") && f.size()==6) {
		o.kind=f[0][0]; o.key=unhex(f[1]); o.val=value_of(f[2]); o.trigs=trigset(f[3]);
		o.deadline=strtoll(f[4].c_str(),0,10);
		o.has_gen = f[5]!="-";
		if(o.has_gen) o.gen=strtoull(f[5].c_str(),0,10);
		return true;
	}
	if((f[0]=="F" || f[0]=="R" || f[0]=="D") && f.size()==2) { o.kind=f[0][0]; o.key=unhex(f[1]); return true; }
	if((f[0]=="C" || f[0]=="Z") && f.size()==1) { o.kind=f[0][0]; return true; }
	return false;
}

struct shared_t {
	cache_ptr cache;
	std::atomic<int> ready;        // spin start line (the only harness synchronisation in race mode)
	int nthreads;
	std::atomic<unsigned long long> clk;
	bool stamps;
	std::atomic<int> done;
	shared_t() : ready(0),nthreads(1),clk(1),stamps(false),done(0) {}
};
struct thr_t {
	shared_t *sh;
	std::vector<op_t> ops;
	std::vector<res_t> res;
	unsigned long long rng;
	pthread_t tid;
};

static inline unsigned long long xs(unsigned long long &s) { s^=s<<13; s^=s>>7; s^=s<<17; return s; }

static void *thread_main(void *p)
{
	thr_t *t=(thr_t*)p;
	shared_t *sh=t->sh;
	cppcms::impl::base_cache *c=sh->cache.get();
	sh->ready++;
	for(unsigned spins=0;sh->ready.load()<sh->nthreads;spins++) { if(spins>20000) sched_yield(); }
	for(size_t i=0;i<t->ops.size();i++) {
		op_t const &o=t->ops[i];
		res_t &r=t->res[i];
		if(t->rng) {                                  // schedule jitter (thread-local state only)
			unsigned long long x=xs(t->rng);
			if((x&7)==0) sched_yield();
			else if((x&7)==1) { volatile unsigned spin=(x>>8)&1023; while(spin) spin--; }
		}
		if(sh->stamps) r.inv=sh->clk.fetch_add(1);
		switch(o.kind) {
		case 'S':
			if(o.has_gen) { cppcms::uint64_t g=o.gen; c->store(o.key,o.val,o.trigs,o.deadline,&g); }
			else c->store(o.key,o.val,o.trigs,o.deadline);
			r.kind='s'; break;
		case 'X':
			fail_new_fired=0;
			if(o.has_gen) { cppcms::uint64_t g=o.gen; fail_new_armed=1; c->store(o.key,o.val,o.trigs,o.deadline,&g); }
			else { fail_new_armed=1; c->store(o.key,o.val,o.trigs,o.deadline); }
			fail_new_armed=0;
			r.kind = fail_new_fired ? 'x' : 's'; break;
		case 'F': {
			time_t dl=-12345; cppcms::uint64_t g=999999;
			bool hit=c->fetch(o.key,&r.val,&r.trigs,&dl,&g);
			if(hit) { r.kind='h'; r.deadline=dl; r.gen=g; } else r.kind='m';
			} break;
		case 'R': c->rise(o.key); r.kind='r'; break;
		case 'D': c->remove(o.key); r.kind='d'; break;
		case 'C': c->clear(); r.kind='c'; break;
		case 'Z': { unsigned k=~0u,n=~0u; c->stats(k,n); r.keys=k; r.ntrig=n; r.kind='z'; } break;
		}
		if(sh->stamps) r.res=sh->clk.fetch_add(1);
	}
	sh->done++;
	return 0;
}

static std::string run_mt(std::vector<std::string> const &v)
{
	if(v.size()<6) return "BAD-CASE";
	shared_t sh;
	sh.stamps = v[1]=="l";
	unsigned limit=strtoul(v[2].c_str(),0,10);
	vnow=strtoll(v[3].c_str(),0,10);
	unsigned long long seed=strtoull(v[4].c_str(),0,10);
	std::vector<thr_t> th;
	th.push_back(thr_t());       // group 0 = prefill, run by the main thread before the others are created
	for(size_t i=5;i<v.size();i++) {
		if(v[i]==";") { th.push_back(thr_t()); continue; }
		op_t o;
		if(!parse_op(v[i],o)) return "BAD-OP";
		th.back().ops.push_back(o);
	}
	if(th.size()>65) return "BAD-CASE";
	sh.cache=cppcms::impl::thread_cache_factory(limit);
	int before=tsan_reports;
	tsan_kinds_len=0;
	alarm(120);                  // a sequential (inline) run that never returns is killed: the check sees a crash on this case
	for(size_t i=0;i<th.size();i++) {
		th[i].sh=&sh;
		th[i].res.resize(th[i].ops.size());
		th[i].rng = seed ? (seed*0x9E3779B97F4A7C15ULL + (i+1)*0xD1B54A32D192ED03ULL) | 1 : 0;
	}
	// prefill (and the whole run when there is one thread group only): inline, deterministic
	sh.nthreads=1;
	thread_main(&th[0]);
	if(th.size()==2) {
		sh.ready=0;
		thread_main(&th[1]);
	}
	else if(th.size()>2) {
		sh.ready=0; sh.done=0;
		sh.nthreads=(int)th.size()-1;
		for(size_t i=1;i<th.size();i++)
			if(pthread_create(&th[i].tid,0,thread_main,&th[i])!=0) return "<harness pthread_create failed>";
		// watchdog: every operation completes
		for(int ms=0;sh.done.load()<sh.nthreads;ms++) {
			if(ms>30000) {
				printf("HANG done=%d/%d\n",sh.done.load(),sh.nthreads);
				fflush(stdout);
				_exit(3);
			}
			usleep(ms<50 ? 200 : 1000);
		}
		for(size_t i=1;i<th.size();i++) pthread_join(th[i].tid,0);
	}
	sh.cache=0;                  // destroy the cache (del_ref under the lock)
	alarm(0);
	int reports=tsan_reports-before;
	std::string out;
	char buf[160];
	snprintf(buf,sizeof(buf),"tsan=%d",reports);
	out+=buf;
	if(reports>0) { out+=":"; int n=tsan_kinds_len; if(n>(int)sizeof(tsan_kinds)-1) n=sizeof(tsan_kinds)-1; out+=std::string(tsan_kinds,n); }
	for(size_t i=0;i<th.size();i++) {
		out+=" ;";
		for(size_t j=0;j<th[i].res.size();j++) {
			res_t const &r=th[i].res[j];
			snprintf(buf,sizeof(buf)," %llu,%llu,",r.inv,r.res);
			out+=buf;
			switch(r.kind) {
			case 'h':
				snprintf(buf,sizeof(buf),":%lld:%llu",(long long)r.deadline,(unsigned long long)r.gen);
				out+="h:"+valtok(r.val)+":"+trigtok(r.trigs)+buf;
				break;
			case 'z': snprintf(buf,sizeof(buf),"z:%u/%u",r.keys,r.ntrig); out+=buf; break;
			default: out+=r.kind;
			}
		}
	}
	return out;
}

int main()
{
	std::string line;
	while(std::getline(std::cin,line)) {
		std::vector<std::string> v=split(line);
		std::string r;
		try {
			if(!v.empty() && v[0]=="mt") r=run_mt(v);
			else if(!v.empty() && v[0]=="hash") {
				// hash <hexkey> ... : cppcms::impl::string_hash of the CURRENT private/hash_map.h (the hash behind primary / triggers):
				// checks/C09.py builds key sets that collide in the hash maps from these answers
				cppcms::impl::string_hash hf;
				char buf[32];
				r="hash";
				for(size_t i=1;i<v.size();i++) { snprintf(buf,sizeof(buf)," %lu",(unsigned long)hf(unhex(v[i]))); r+=buf; }
			}
			else if(!v.empty() && v[0]=="probe") r=std::string("probe tsan=")+tsan_mode+" fault="+(fault_works() ? "works" : "inert");
			else r="BAD-CASE";
		}
		catch(std::exception const &e) { r=std::string("<exception ")+e.what()+">"; }
		catch(...) { r="<exception unknown>"; }
		printf("%s\n",r.c_str());
		fflush(stdout);
	}
	return 0;
}
