// C06 correspondence / oracle harness: the real cppcms::session_interface (load / save policy, packed codec,
// update_exposed) over the real back-ends session_sid / session_cookies / session_dual and the real storages
// (memory, files, network through an in-process tcp_cache_service), driven without any network front end:
//   * every simulated browser is a cookie jar; the session_interface_cookie_adapter handed to session_interface IS the jar
//   * time() is interposed: the clock only moves by the `T` steps of the case
//   * the session_storage given to the pool is a logging decorator around the real storage: every id that reaches the
//     storage is observed
// One case per input line = one whole history; one output line.
//
// case  :=  hist loc=S|C|B stor=M|F|N exp=F|R|B to=<n> lim=<n> { '|' step }
// step  :=  T <dt>                         clock advance
//        |  R <b> <op>*                    request of browser b: load, observe, ops, save, observe
//        |  A <b> raw <hex>                attacker: session cookie of b := literal string (no expiry)
//        |  A <b> hist <i> <mut>           attacker: session cookie of b := i-th distinct session cookie value ever emitted (mod count),
//                                          mut in {id, flip, trunc, ext, upper, path}
//        |  X <b> <keyhex> <valhex>        attacker: plant a cookie named prefix_key in jar b
//        |  P <b> <id32> <deadline> <hex>  corrupt store: record under literal id, and session cookie of b := I<id>
// op    :=  s:<k>:<v> | e:<k> | c | x:<k> | h:<k> | a:<n> | da | p:<n> | dp | o:<0|1> | r
#include "C06_common.h"

static void backend_start(json::value &v,std::string const &loc)
{
	W->pool.reset(new session_pool(v));
	if(loc!="C") {
		std::unique_ptr<sessions::session_storage_factory> lf(new LogFactory(W->inner));
		W->pool->storage(std::move(lf));
	}
	W->pool->init();
}

static void backend_stop()
{
	W->pool.reset();
}

static std::string backend_request(int b,std::vector<std::string> const &ops)
{
	std::ostringstream out;
	Jar jar(b);
	std::string exc;
	try {
		session_interface s(*W->pool,jar);
		bool ld = s.load();
		out << observe(s,ld);
		if(!apply_ops(s,ops)) return " BAD-OP";
		s.save();
	}
	catch(cppcms_error const &e) { exc = "cppcms"; }
	catch(std::bad_cast const &e) { exc = "cast"; }
	catch(std::exception const &e) { exc = "std"; }
	if(!exc.empty()) out << " EXC:" << exc;
	return out.str();
}

int main()
{
	std::string line;
	int serial = 0;
	while(std::getline(std::cin,line)) {
		std::vector<std::string> tok = hx::split(line);
		std::string r;
		if(tok.empty() || tok[0]!="hist") r = "BAD-CASE";
		else r = run_case(tok,serial++);
		std::cout << r << "\n";
	}
	std::cout.flush();
	return 0;
}
