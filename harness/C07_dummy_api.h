// C07 harness: a cgi connection without a socket (after /repo/tests/dummy_api.h), so that a cppcms::http::context -
// and with it the cache_interface of a request, fetch_page and store_page - can be driven in-process.
#ifndef C07_DUMMY_API_H
#define C07_DUMMY_API_H
#include "cgi_api.h"
#include "response_headers.h"
#include <booster/system_error.h>
#include <booster/aio/aio_category.h>
#include <map>
#include <string>
#include <stdexcept>

class c07_dummy_api : public cppcms::impl::cgi::connection {
public:
	c07_dummy_api(cppcms::service &srv,std::map<std::string,std::string> env,std::string &output) :
		cppcms::impl::cgi::connection(srv), output_(&output), headers_written_(false)
	{
		for(std::map<std::string,std::string>::iterator p=env.begin();p!=env.end();++p)
			env_.add(pool_.add(p->first),pool_.add(p->second));
	}
	virtual void set_response_headers(cppcms::impl::response_headers &h)
	{
		cppcms::impl::response_headers::string_buffer_wrapper wr;
		h.format_cgi_headers(wr,true);
		headers_ = wr.data();
	}
	booster::aio::const_buffer format_output(booster::aio::const_buffer const &in,bool,booster::system::error_code &)
	{
		if(headers_written_) return in;
		headers_written_ = true;
		return booster::aio::buffer(headers_) + in;
	}
	void async_read_headers(cppcms::impl::cgi::handler const &) { throw std::runtime_error("c07_dummy_api: unsupported"); }
	void async_read_eof(cppcms::impl::cgi::callback const &) { throw std::runtime_error("c07_dummy_api: unsupported"); }
	virtual void do_eof(){}
	virtual void on_async_write_start(){}
	virtual void on_async_write_progress(bool){}
	virtual bool write(booster::aio::const_buffer const &body_in,bool eof,booster::system::error_code &e)
	{
		booster::aio::const_buffer in = format_output(body_in,eof,e);
		std::pair<booster::aio::const_buffer::entry const *,size_t> all=in.get();
		for(size_t i=0;i<all.second;i++)
			output_->append(reinterpret_cast<char const *>(all.first[i].ptr),all.first[i].size);
		return true;
	}
	virtual bool nonblocking_write(booster::aio::const_buffer const &in,bool eof,booster::system::error_code &e) { return write(in,eof,e); }
	virtual booster::aio::stream_socket &socket() { throw std::runtime_error("c07_dummy_api: unsupported"); }
	virtual booster::aio::io_service &get_io_service() { throw std::runtime_error("c07_dummy_api: unsupported"); }
	bool keep_alive() { return false; }
	void close(){}
	virtual void async_read_some(void *,size_t,cppcms::impl::cgi::io_handler const &) { throw std::runtime_error("c07_dummy_api: unsupported"); }
private:
	std::string *output_;
	std::string headers_;
	bool headers_written_;
};
#endif
