// C19 correspondence harness: the real cppcms::archive and archive_traits of the current tree,
// instantiated at a table of concrete C++ types (the "type universe"); one case per line.
//   types                                   -> id=spec list
//   ld <id> <spec> <hexarchive> <jtab>      load the bytes into a fresh object
//   mu <id> <spec> <off> <val> <hex> <jtab> overwrite 4 bytes at <off> with <val> (LE), then as ld
//   tr <id> <spec> <k> <hex> <jtab>         load the full archive and its first k bytes
//   rt <id> <spec> <valuetext> <jtab>       build the object, save, load back (fresh and dirty target), compare
//   muh ...                                 as mu; the offset is that of a chunk header of a valid archive
//   sc <id> <spec> <valuetext> <jtab>       same through session_interface / cache_interface store_data/fetch_data
//   scl <id> <spec> <hex> <jtab>            the bytes stored as session value / cache frame, then fetch_data
//   rd <id> <spec> <valuetext> <dirtytext> <jtab>   save the object, load it into an object that holds <dirtytext> (state must be replaced, not merged)
//   sq <id> <spec> <valuetext> ... <jtab>   several objects saved one after another into ONE archive, then loaded one after another
// <jtab> is only read by the model driver.
// Every case runs under a watchdog (CPU-time and wall-clock interval timers): a case that exceeds its budget is answered with
// the line "<op> HANG <which>" and the process exits with status 75 (the supervisor in checks/C19.py restarts it on the next case).
#include <string>
#include <utility>
#include <vector>
#include <list>
#include <map>
#include <set>
#include <sstream>
#include <iostream>
#include <iterator>
#include <memory>
#include <algorithm>
#include <stdexcept>
#include <typeinfo>
#include <locale>
#include <type_traits>
#include <string.h>
#include <stdlib.h>
#include <stdio.h>
#include <unistd.h>
#include <signal.h>
#include <sys/time.h>
#include <sys/resource.h>
#include <booster/shared_ptr.h>
#include <booster/intrusive_ptr.h>
#include <booster/hold_ptr.h>
#include <booster/clone_ptr.h>
#include <booster/copy_ptr.h>
#include <booster/backtrace.h>
#include <booster/refcounted.h>
#include <cppcms/json.h>
// the read position of an archive is private; the harness reports it (layout is not affected)
#define private public
#include <cppcms/serialization_classes.h>
#undef private
#include <cppcms/archive_traits.h>
#include <cppcms/serialization.h>
#ifdef C19_WITH_SERVICE
#include <cppcms/service.h>
#include <cppcms/session_interface.h>
#include <cppcms/session_pool.h>
#include <cppcms/cache_interface.h>
#include <cppcms/session_api.h>
#include <cppcms/cppcms_error.h>
#include <time.h>
#include <cppcms/http_cookie.h>
#include <cppcms/util.h>
#endif
#include "hexio.h"
using namespace hx;

// The type table can be compiled in several translation units side by side (compile time is dominated by the template
// instantiations per type): -DC19_PART=0 = main(), the session cases and the shared globals; -DC19_PART=1..3 = a slice of the
// type table each; without -DC19_PART everything is in this one translation unit.
#ifndef C19_PART
#define C19_PART -1
#endif
#if C19_PART<=0
#define C19_GLOBAL
#else
#define C19_GLOBAL extern
#endif

// ---------------------------------------------------------------- json wrapper with a log
struct jw { cppcms::json::value v; };
C19_GLOBAL std::vector<std::pair<std::string,std::string> > jlog;
static std::string json_text(cppcms::json::value const &v)
{
	std::ostringstream ss; v.save(ss,cppcms::json::compact); return ss.str();
}
namespace cppcms {
	template<> struct archive_traits<jw> {
		static void save(jw const &o,archive &a) { archive_traits<json::value>::save(o.v,a); }
		static void load(jw &o,archive &a)
		{
			// the verdict of the json parser on the chunk, obtained independently of what archive_traits<json::value> does with it
			// (whole text must be one json value); this is the model's json_parse
			archive b=a; std::string chunk; bool got=true;
			try { chunk=b.read_chunk_as_string(); } catch(...) { got=false; }
			if(got) {
				json::value ref; std::istringstream rs(chunk);
				bool ok=ref.load(rs,true);
				jlog.push_back(std::make_pair(chunk,ok ? hex(json_text(ref)) : std::string("!")));
			}
			archive_traits<json::value>::load(o.v,a);
		}
	};
}

// ---------------------------------------------------------------- value text
static std::string token(char const *&p)
{
	std::string r;
	while((*p>='0' && *p<='9') || (*p>='a' && *p<='f') || *p=='-') r+=*p++;
	return r;
}
static bool eat(char const *&p,char c){ if(*p==c){ ++p; return true; } return false; }
static std::string itos(size_t n){ std::ostringstream s; s<<n; return s.str(); }

template<class T,class E=void> struct IO;

template<class T> struct IO<T,typename std::enable_if<std::is_arithmetic<T>::value>::type> {
	static std::string spec(){ return "p"+itos(sizeof(T)); }
	static void print(T const &v,std::string &o){ o+=hex(std::string(reinterpret_cast<char const*>(&v),sizeof(T))); }
	static bool build(char const *&p,T &v){ std::string b=unhex(token(p)); if(b.size()!=sizeof(T)) return false; memcpy(&v,b.data(),sizeof(T)); return true; }
	static bool eq(T const &a,T const &b){ return memcmp(&a,&b,sizeof(T))==0; }   // bit equality (NaN, -0.0)
};
template<> struct IO<std::string> {
	static std::string spec(){ return "s"; }
	static void print(std::string const &v,std::string &o){ o+=hex(v); }
	static bool build(char const *&p,std::string &v){ std::string t=token(p); if(t.empty()) return false; v=unhex(t); return true; }
	static bool eq(std::string const &a,std::string const &b){ return a==b; }
};
template<class T> struct IO<std::vector<T>,typename std::enable_if<std::is_arithmetic<T>::value>::type> {
	static std::string spec(){ return "v"+itos(sizeof(T)); }
	static void print(std::vector<T> const &v,std::string &o){ o+=hex(v.empty()?std::string():std::string(reinterpret_cast<char const*>(&v[0]),v.size()*sizeof(T))); }
	static bool build(char const *&p,std::vector<T> &v){
		std::string t=token(p); if(t.empty()) return false; std::string b=unhex(t);
		if(b.size()%sizeof(T)) return false; v.resize(b.size()/sizeof(T)); if(!b.empty()) memcpy(&v[0],b.data(),b.size()); return true; }
	static bool eq(std::vector<T> const &a,std::vector<T> const &b){ return a.size()==b.size() && (a.empty() || memcmp(&a[0],&b[0],a.size()*sizeof(T))==0); }
};
template<class C> struct SeqIO {
	typedef typename C::value_type E;
	static void print(C const &v,std::string &o){
		o+="["; bool f=true;
		for(typename C::const_iterator i=v.begin();i!=v.end();++i){ if(!f) o+=","; f=false; IO<E>::print(*i,o); }
		o+="]"; }
	static bool build(char const *&p,C &v){
		if(!eat(p,'[')) return false; v.clear();
		if(eat(p,']')) return true;
		for(;;){ E e; if(!IO<E>::build(p,e)) return false; v.insert(v.end(),e); if(eat(p,']')) return true; if(!eat(p,',')) return false; } }
	static bool eq(C const &a,C const &b){
		if(a.size()!=b.size()) return false;
		typename C::const_iterator i=a.begin(),j=b.begin();
		for(;i!=a.end();++i,++j) if(!IO<E>::eq(*i,*j)) return false;
		return true; }
};
template<class T> struct IO<std::vector<T>,typename std::enable_if<!std::is_arithmetic<T>::value>::type> : SeqIO<std::vector<T> > {
	static std::string spec(){ return "L"+IO<T>::spec(); } };
template<class T> struct IO<std::list<T> > : SeqIO<std::list<T> > {
	static std::string spec(){ return "L"+IO<T>::spec(); } };
// sets and maps are printed in a canonical order (sorted printed elements)
template<class C> static void print_sorted(C const &v,std::string &o)
{
	typedef typename C::value_type E;
	std::vector<std::string> items;
	for(typename C::const_iterator i=v.begin();i!=v.end();++i){ std::string s; IO<E>::print(*i,s); items.push_back(s); }
	std::sort(items.begin(),items.end());
	o+="["; for(size_t i=0;i<items.size();i++){ if(i) o+=","; o+=items[i]; } o+="]";
}
template<class A,class B> struct IO<std::pair<A,B> > {
	typedef typename std::remove_const<A>::type A0;
	static std::string spec(){ return "P"+IO<A0>::spec()+IO<B>::spec(); }
	static void print(std::pair<A,B> const &v,std::string &o){ o+="("; IO<A0>::print(v.first,o); o+=","; IO<B>::print(v.second,o); o+=")"; }
	static bool build(char const *&p,std::pair<A,B> &v){
		return eat(p,'(') && IO<A0>::build(p,const_cast<A0&>(v.first)) && eat(p,',') && IO<B>::build(p,v.second) && eat(p,')'); }
	static bool eq(std::pair<A,B> const &a,std::pair<A,B> const &b){ return IO<A0>::eq(a.first,b.first) && IO<B>::eq(a.second,b.second); }
};
template<class T> struct IO<std::set<T> > {
	static std::string spec(){ return "S"+IO<T>::spec(); }
	static void print(std::set<T> const &v,std::string &o){ print_sorted(v,o); }
	static bool build(char const *&p,std::set<T> &v){ return SeqIO<std::set<T> >::build(p,v); }
	static bool eq(std::set<T> const &a,std::set<T> const &b){ return SeqIO<std::set<T> >::eq(a,b); }
};
template<class K,class V> struct IO<std::map<K,V> > {
	static std::string spec(){ return "M"+IO<K>::spec()+IO<V>::spec(); }
	static void print(std::map<K,V> const &v,std::string &o){ print_sorted(v,o); }
	static bool build(char const *&p,std::map<K,V> &v){
		if(!eat(p,'[')) return false; v.clear();
		if(eat(p,']')) return true;
		for(;;){ std::pair<K,V> e; if(!IO<std::pair<K,V> >::build(p,e)) return false; v.insert(e); if(eat(p,']')) return true; if(!eat(p,',')) return false; } }
	static bool eq(std::map<K,V> const &a,std::map<K,V> const &b){ return SeqIO<std::map<K,V> >::eq(a,b); }
};
template<class T> struct IO<std::multiset<T> > {
	static std::string spec(){ return "B"+IO<T>::spec(); }
	static void print(std::multiset<T> const &v,std::string &o){ print_sorted(v,o); }
	static bool build(char const *&p,std::multiset<T> &v){ return SeqIO<std::multiset<T> >::build(p,v); }
	static bool eq(std::multiset<T> const &a,std::multiset<T> const &b){ return SeqIO<std::multiset<T> >::eq(a,b); }
};
template<class K,class V> struct IO<std::multimap<K,V> > {
	static std::string spec(){ return "N"+IO<K>::spec()+IO<V>::spec(); }
	static void print(std::multimap<K,V> const &v,std::string &o){ print_sorted(v,o); }
	static bool build(char const *&p,std::multimap<K,V> &v){
		if(!eat(p,'[')) return false; v.clear();
		if(eat(p,']')) return true;
		for(;;){ std::pair<K,V> e; if(!IO<std::pair<K,V> >::build(p,e)) return false; v.insert(e); if(eat(p,']')) return true; if(!eat(p,',')) return false; } }
	static bool eq(std::multimap<K,V> const &a,std::multimap<K,V> const &b){ return SeqIO<std::multimap<K,V> >::eq(a,b); }
};
template<class P> struct PtrIO {
	typedef typename P::element_type T;
	static std::string spec(){ return "O"+IO<T>::spec(); }
	static void print(P const &v,std::string &o){ if(!v.get()) o+="N"; else { o+="&"; IO<T>::print(*v,o); } }
	static bool build(char const *&p,P &v){
		if(eat(p,'N')) { v.reset(); return true; }
		if(!eat(p,'&')) return false;
		v.reset(new T()); return IO<T>::build(p,*v); }
	static bool eq(P const &a,P const &b){ if(!a.get() || !b.get()) return !a.get() && !b.get(); return IO<T>::eq(*a,*b); }
};
template<class T> struct IO<booster::shared_ptr<T> > : PtrIO<booster::shared_ptr<T> > {};
// pointers without an element_type typedef
template<class P,class T> struct PtrIO2 {
	static std::string spec(){ return "O"+IO<T>::spec(); }
	static void print(P const &v,std::string &o){ if(!v.get()) o+="N"; else { o+="&"; IO<T>::print(*v,o); } }
	static bool build(char const *&p,P &v){
		if(eat(p,'N')) { v.reset(); return true; }
		if(!eat(p,'&')) return false;
		v.reset(new T()); return IO<T>::build(p,*v); }
	static bool eq(P const &a,P const &b){ if(!a.get() || !b.get()) return !a.get() && !b.get(); return IO<T>::eq(*a,*b); }
};
template<class T> struct IO<booster::hold_ptr<T> > : PtrIO2<booster::hold_ptr<T>,T> {};
template<class T> struct IO<booster::clone_ptr<T> > : PtrIO2<booster::clone_ptr<T>,T> {};
template<class T> struct IO<std::unique_ptr<T> > : PtrIO2<std::unique_ptr<T>,T> {};
template<class T> struct IO<booster::intrusive_ptr<T> > {
	typedef booster::intrusive_ptr<T> P;
	static std::string spec(){ return "O"+IO<T>::spec(); }
	static void print(P const &v,std::string &o){ if(!v.get()) o+="N"; else { o+="&"; IO<T>::print(*v,o); } }
	static bool build(char const *&p,P &v){
		if(eat(p,'N')) { v=0; return true; }
		if(!eat(p,'&')) return false;
		v=new T(); return IO<T>::build(p,*v); }
	static bool eq(P const &a,P const &b){ if(!a.get() || !b.get()) return !a.get() && !b.get(); return IO<T>::eq(*a,*b); }
};
// a clonable user class holding one string (wire format = the string)
struct cl_str : public cppcms::serializable {
	std::string s;
	void serialize(cppcms::archive &a){ a & s; }
	cl_str *clone() const { return new cl_str(*this); }
};
// a reference counted user class for intrusive_ptr (wire format = int, string)
struct rc_rec : public booster::refcounted {
	int n; std::string s;
	rc_rec():n(0){}
};
namespace cppcms {
	template<> struct archive_traits<rc_rec> {
		static void save(rc_rec const &o,archive &a){ a << o.n << o.s; }
		static void load(rc_rec &o,archive &a){ a >> o.n >> o.s; }
	};
}
template<> struct IO<rc_rec> {
	static std::string spec(){ return "Pp4s"; }
	static void print(rc_rec const &v,std::string &o){ o+="("; IO<int>::print(v.n,o); o+=","; IO<std::string>::print(v.s,o); o+=")"; }
	static bool build(char const *&p,rc_rec &v){ return eat(p,'(') && IO<int>::build(p,v.n) && eat(p,',') && IO<std::string>::build(p,v.s) && eat(p,')'); }
	static bool eq(rc_rec const &a,rc_rec const &b){ return a.n==b.n && a.s==b.s; }
};
template<> struct IO<cl_str> {
	static std::string spec(){ return "s"; }
	static void print(cl_str const &v,std::string &o){ IO<std::string>::print(v.s,o); }
	static bool build(char const *&p,cl_str &v){ return IO<std::string>::build(p,v.s); }
	static bool eq(cl_str const &a,cl_str const &b){ return a.s==b.s; }
};
template<class T> struct IO<booster::copy_ptr<T> > {
	typedef booster::copy_ptr<T> P;
	static std::string spec(){ return "O"+IO<T>::spec(); }
	static void print(P const &v,std::string &o){ if(!v.get()) o+="N"; else { o+="&"; IO<T>::print(*v,o); } }
	static bool build(char const *&p,P &v){
		if(eat(p,'N')) { v.reset(); return true; }
		if(!eat(p,'&')) return false;
		v.reset(new T()); return IO<T>::build(p,*v); }
	static bool eq(P const &a,P const &b){ if(!a.get() || !b.get()) return !a.get() && !b.get(); return IO<T>::eq(*a,*b); }
};
template<> struct IO<jw> {
	static std::string spec(){ return "J"; }
	static void print(jw const &v,std::string &o){ o+="j"; o+=hex(json_text(v.v)); }
	static bool build(char const *&p,jw &v){
		if(!eat(p,'j')) return false;
		std::string t=token(p); if(t.empty()) return false;
		std::istringstream ss(unhex(t)); return v.v.load(ss,true); }
	static bool eq(jw const &a,jw const &b){ return a.v==b.v; }
};

// ---------------------------------------------------------------- user classes
struct pt { int x,y; };                         // written with as_pod: one 8-byte chunk
// serializable with one serialize(): fields id, tag, w   == P p4 P s v8
struct rec2 : public cppcms::serializable {
	int id; std::string tag; std::vector<double> w;
	rec2():id(0){}
	void serialize(cppcms::archive &a){ a & id & tag & w; }
};
template<> struct IO<rec2> {
	static std::string spec(){ return "Pp4Psv8"; }
	static void print(rec2 const &v,std::string &o){ o+="("; IO<int>::print(v.id,o); o+=",("; IO<std::string>::print(v.tag,o); o+=","; IO<std::vector<double> >::print(v.w,o); o+="))"; }
	static bool build(char const *&p,rec2 &v){
		return eat(p,'(') && IO<int>::build(p,v.id) && eat(p,',') && eat(p,'(') && IO<std::string>::build(p,v.tag) && eat(p,',')
			&& IO<std::vector<double> >::build(p,v.w) && eat(p,')') && eat(p,')'); }
	static bool eq(rec2 const &a,rec2 const &b){ return a.id==b.id && a.tag==b.tag && IO<std::vector<double> >::eq(a.w,b.w); }
};
// serializable_base with separate save/load, as_pod, POD array, generic array == P p8 P p12 P s s
struct rec3 : public cppcms::serializable_base {
	pt p; int arr[3]; std::string names[2];
	rec3(){ p.x=p.y=0; arr[0]=arr[1]=arr[2]=0; }
	void save(cppcms::archive &a) const { a << cppcms::as_pod(p) << arr << names; }
	void load(cppcms::archive &a) { a >> cppcms::as_pod(p) >> arr >> names; }
};
template<> struct IO<rec3> {
	static std::string spec(){ return "Pp8Pp12Pss"; }
	static void print(rec3 const &v,std::string &o){
		o+="("; o+=hex(std::string(reinterpret_cast<char const*>(&v.p),8)); o+=",("; o+=hex(std::string(reinterpret_cast<char const*>(v.arr),12));
		o+=",("; IO<std::string>::print(v.names[0],o); o+=","; IO<std::string>::print(v.names[1],o); o+=")))"; }
	static bool build(char const *&p,rec3 &v){
		if(!eat(p,'(')) return false;
		std::string a=unhex(token(p)); if(a.size()!=8) return false; memcpy(&v.p,a.data(),8);
		if(!eat(p,',') || !eat(p,'(')) return false;
		std::string b=unhex(token(p)); if(b.size()!=12) return false; memcpy(v.arr,b.data(),12);
		return eat(p,',') && eat(p,'(') && IO<std::string>::build(p,v.names[0]) && eat(p,',') && IO<std::string>::build(p,v.names[1])
			&& eat(p,')') && eat(p,')') && eat(p,')'); }
	static bool eq(rec3 const &a,rec3 const &b){ return memcmp(&a.p,&b.p,8)==0 && memcmp(a.arr,b.arr,12)==0 && a.names[0]==b.names[0] && a.names[1]==b.names[1]; }
};
// the big one: name, n, m, p, l, j   == P s P p8 P Mp4s P O rec2 P L rec3 J
struct rec1 : public cppcms::serializable {
	std::string name; long long n; std::map<int,std::string> m; booster::shared_ptr<rec2> p; std::list<rec3> l; jw j;
	rec1():n(0){}
	void serialize(cppcms::archive &a){ a & name & n & m & p & l & j; }
};
template<> struct IO<rec1> {
	typedef std::map<int,std::string> M; typedef booster::shared_ptr<rec2> P2; typedef std::list<rec3> L3;
	static std::string spec(){ return "PsPp8P"+IO<M>::spec()+"P"+IO<P2>::spec()+"P"+IO<L3>::spec()+"J"; }
	static void print(rec1 const &v,std::string &o){
		o+="("; IO<std::string>::print(v.name,o); o+=",("; IO<long long>::print(v.n,o); o+=",("; IO<M>::print(v.m,o); o+=",(";
		IO<P2>::print(v.p,o); o+=",("; IO<L3>::print(v.l,o); o+=","; IO<jw>::print(v.j,o); o+=")))))"; }
	static bool build(char const *&p,rec1 &v){
		return eat(p,'(') && IO<std::string>::build(p,v.name) && eat(p,',') && eat(p,'(') && IO<long long>::build(p,v.n) && eat(p,',') && eat(p,'(')
			&& IO<M>::build(p,v.m) && eat(p,',') && eat(p,'(') && IO<P2>::build(p,v.p) && eat(p,',') && eat(p,'(') && IO<L3>::build(p,v.l)
			&& eat(p,',') && IO<jw>::build(p,v.j) && eat(p,')') && eat(p,')') && eat(p,')') && eat(p,')') && eat(p,')'); }
	static bool eq(rec1 const &a,rec1 const &b){
		return a.name==b.name && a.n==b.n && IO<M>::eq(a.m,b.m) && IO<P2>::eq(a.p,b.p) && IO<L3>::eq(a.l,b.l) && IO<jw>::eq(a.j,b.j); }
};

// empty POD vectors / strings / containers in every non-final position: a, s, b, l, m, vv are all followed by further members
//   == P v1 P s P v4 P Ls P Mp4v2 P Lv8 p4
struct rec4 : public cppcms::serializable {
	std::vector<char> a; std::string s; std::vector<int> b; std::list<std::string> l; std::map<int,std::vector<short> > m;
	std::vector<std::vector<double> > vv; int tail;
	rec4():tail(0){}
	void serialize(cppcms::archive &ar){ ar & a & s & b & l & m & vv & tail; }
};
template<> struct IO<rec4> {
	typedef std::vector<char> A; typedef std::vector<int> B; typedef std::list<std::string> L; typedef std::map<int,std::vector<short> > M;
	typedef std::vector<std::vector<double> > VV;
	static std::string spec(){ return "P"+IO<A>::spec()+"PsP"+IO<B>::spec()+"P"+IO<L>::spec()+"P"+IO<M>::spec()+"P"+IO<VV>::spec()+"p4"; }
	static void print(rec4 const &v,std::string &o){
		o+="("; IO<A>::print(v.a,o); o+=",("; IO<std::string>::print(v.s,o); o+=",("; IO<B>::print(v.b,o); o+=",("; IO<L>::print(v.l,o); o+=",(";
		IO<M>::print(v.m,o); o+=",("; IO<VV>::print(v.vv,o); o+=","; IO<int>::print(v.tail,o); o+="))))))"; }
	static bool build(char const *&p,rec4 &v){
		return eat(p,'(') && IO<A>::build(p,v.a) && eat(p,',') && eat(p,'(') && IO<std::string>::build(p,v.s) && eat(p,',') && eat(p,'(')
			&& IO<B>::build(p,v.b) && eat(p,',') && eat(p,'(') && IO<L>::build(p,v.l) && eat(p,',') && eat(p,'(') && IO<M>::build(p,v.m)
			&& eat(p,',') && eat(p,'(') && IO<VV>::build(p,v.vv) && eat(p,',') && IO<int>::build(p,v.tail)
			&& eat(p,')') && eat(p,')') && eat(p,')') && eat(p,')') && eat(p,')') && eat(p,')'); }
	static bool eq(rec4 const &a,rec4 const &b){
		return IO<A>::eq(a.a,b.a) && a.s==b.s && IO<B>::eq(a.b,b.b) && IO<L>::eq(a.l,b.l) && IO<M>::eq(a.m,b.m) && IO<VV>::eq(a.vv,b.vv) && a.tail==b.tail; }
};

// ---------------------------------------------------------------- running a case
static std::string status_of(std::exception const &e)
{
	char const *w=e.what();
	if(dynamic_cast<cppcms::archive_error const *>(&e)) {
		if(strstr(w,"At end of archive")) return "err:eof";
		if(strstr(w,"Invalid archive format")) return "err:fmth";
		if(strstr(w,"Invalid archive_format")) return "err:fmts";
		if(strstr(w,"Invalid block length")) return "err:blen";
		if(strstr(w,"Invalid json")) return "err:json";
		return "err:other-archive-error";
	}
	std::string s="exc:"; s+=typeid(e).name();
	return s;
}
static std::string jlog_text()
{
	std::string r="jl=";
	for(size_t i=0;i<jlog.size();i++){ if(i) r+=","; r+=hex(jlog[i].first)+"="+jlog[i].second; }
	return r;
}
// load bytes into obj (through operator>>); the textual result without the json log
template<class T> static std::string load_into(std::string const &bytes,T &obj)
{
	cppcms::archive a; a.str(bytes);
	std::string st="ok";
	try { a >> obj; }
	catch(std::exception const &e) { return status_of(e); }
	catch(...) { return "exc:unknown"; }
	std::string o="ok ptr="+itos(a.ptr_)+" eof="+(a.eof()?"1":"0")+" v=";
	IO<T>::print(obj,o);
	return o;
}
template<class T> static std::string do_ld(std::string const &bytes)
{
	T obj=T(); return load_into(bytes,obj);
}
template<class T> static std::string do_rt(std::string const &text)
{
	T orig=T(); char const *p=text.c_str();
	if(!IO<T>::build(p,orig) || *p) return "BAD-VALUE";
	cppcms::archive a;
	a << orig;
	std::string bytes=a.str();
	// also through operator& in save mode and a copy of the archive object
	cppcms::archive a2; a2 & orig;
	cppcms::archive a3(a2);
	std::string r="A="+hex(bytes)+(a3.str()==bytes ? "" : " SAVE-PATHS-DIFFER")+" ";
	T fresh=T();
	std::string l1=load_into(bytes,fresh);
	r+=l1;
	if(l1.compare(0,2,"ok")==0) {
		r+=std::string(" eq=")+(IO<T>::eq(orig,fresh)?"1":"0");
		// load over an object that already holds data (operator& in load mode)
		T dirty=T(); char const *q=text.c_str(); IO<T>::build(q,dirty);
		a3.mode(cppcms::archive::load_from_archive);
		std::string st="1";
		size_t jl=jlog.size();
		try { a3 & dirty; if(!IO<T>::eq(orig,dirty) || !a3.eof()) st="0"; } catch(...) { st="threw"; }
		// one archive object used again: reset() and str() must rewind; assignment must carry position and mode
		try {
			a3.reset(); T again=T(); a3 >> again; if(!IO<T>::eq(orig,again) || !a3.eof()) st="0:reset";
			a3.str(bytes); T third=T(); a3 >> third; if(!IO<T>::eq(orig,third) || !a3.eof()) st="0:str";
			cppcms::archive a4; a4=a2; a4.mode(cppcms::archive::load_from_archive); T fourth=T(); a4 & fourth;
			if(!IO<T>::eq(orig,fourth) || !a4.eof()) st="0:assign";
			// a4 stands at the end now: a copy carries the read position; mode() rewinds whatever the position was
			cppcms::archive a5(a4);
			if(a5.ptr_!=a4.ptr_ || a5.eof()!=a4.eof()) st="0:copy-position";
			a4.mode(cppcms::archive::load_from_archive); T fifth=T(); a4 >> fifth;
			if(!IO<T>::eq(orig,fifth) || !a4.eof()) st="0:mode-rewind";
			cppcms::archive a6; a6=a5;
			if(a6.ptr_!=a5.ptr_ || a6.mode()!=a5.mode()) st="0:assign-position";
			// move construction / move assignment carry buffer, position and mode as well
			size_t pos5=a5.ptr_; cppcms::archive::mode_type m5=a5.mode();
			cppcms::archive a7(std::move(a6));
			if(a7.ptr_!=pos5 || a7.mode()!=m5 || a7.str()!=bytes) st="0:move-ctor";
			cppcms::archive a8; a8=std::move(a7);
			if(a8.ptr_!=pos5 || a8.mode()!=m5 || a8.str()!=bytes) st="0:move-assign";
			a8.reset(); T sixth=T(); a8 >> sixth;
			if(!IO<T>::eq(orig,sixth) || !a8.eof()) st="0:moved-archive";
		} catch(...) { st="threw:reuse"; }
		jlog.resize(jl,std::make_pair(std::string(),std::string()));
		r+=" eqd="+st;
	}
	return r;
}

// rd: the target of the load already holds OTHER data (non-null pointers where the saved object has null ones, full containers where it
// has empty ones ...): everything must be replaced
template<class T> static std::string do_rd(std::string const &text,std::string const &dtext)
{
	T orig=T(); char const *p=text.c_str();
	if(!IO<T>::build(p,orig) || *p) return "BAD-VALUE";
	T dirty=T(); char const *q=dtext.c_str();
	if(!IO<T>::build(q,dirty) || *q) return "BAD-VALUE";
	cppcms::archive a; a << orig;
	std::string bytes=a.str();
	std::string r="A="+hex(bytes)+" ";
	std::string l1=load_into(bytes,dirty);                    // operator>>
	r+=l1;
	if(l1.compare(0,2,"ok")==0) {
		r+=std::string(" eq=")+(IO<T>::eq(orig,dirty)?"1":"0");
		T dirty2=T(); char const *q2=dtext.c_str(); IO<T>::build(q2,dirty2);
		cppcms::archive a3; a3.str(bytes);
		std::string st="1";
		size_t jl=jlog.size();
		try { a3 & dirty2; if(!IO<T>::eq(orig,dirty2) || !a3.eof()) st="0"; } catch(...) { st="threw"; }   // operator& in load mode
		jlog.resize(jl,std::make_pair(std::string(),std::string()));
		r+=" eqd="+st;
	}
	return r;
}

// sq: one archive, several objects: save appends, load continues at the read position the previous load left
template<class T> static bool do_sv(cppcms::archive &a,std::string const &text)
{
	T obj=T(); char const *p=text.c_str();
	if(!IO<T>::build(p,obj) || *p) return false;
	a << obj;
	return true;
}
template<class T> static std::string do_lv(cppcms::archive &a,std::string const &text)
{
	T orig=T(); char const *p=text.c_str();
	IO<T>::build(p,orig);
	T obj=T();
	try { a >> obj; }
	catch(std::exception const &e) { return status_of(e); }
	catch(...) { return "exc:unknown"; }
	std::string o="ok ptr="+itos(a.ptr_)+" eof="+(a.eof()?"1":"0")+" eq="+(IO<T>::eq(orig,obj)?"1":"0")+" v=";
	IO<T>::print(obj,o);
	return o;
}

#ifdef C19_WITH_SERVICE
struct null_adapter : public cppcms::session_interface_cookie_adapter {
	std::string name,value;   // the session cookie as the browser would hold it
	virtual void set_cookie(cppcms::http::cookie const &c){ if(c.name()==name) value=c.value(); }
	virtual std::string get_session_cookie(std::string const &){ return cppcms::util::urldecode(value); }
	virtual std::set<std::string> get_cookie_names(){ return std::set<std::string>(); }
};
C19_GLOBAL cppcms::service *the_service;
C19_GLOBAL cppcms::session_pool *the_pool;
static void make_service()
{
	if(the_service) return;
	cppcms::json::value cfg;
	cfg["cache"]["backend"]="thread_shared";
	cfg["cache"]["limit"]=100;
	cfg["session"]["location"]="client";
	cfg["session"]["client"]["hmac"]="sha1";
	cfg["session"]["client"]["hmac_key"]="232074faa0fd37de20858bf8cd0a7d04";
	the_service=new cppcms::service(cfg);
	the_pool=new cppcms::session_pool(cfg);
	the_pool->init();
}
template<class T> static typename std::enable_if<std::is_base_of<cppcms::serializable_base,T>::value,std::string>::type do_sc(std::string const &text)
{
	T orig=T(); char const *p=text.c_str();
	if(!IO<T>::build(p,orig) || *p) return "BAD-VALUE";
	make_service();
	std::string r;
	try {
		null_adapter ad;
		cppcms::session_interface s(*the_pool,ad);
		s.load();
		s.store_data("obj",orig);
		T back=T();
		s.fetch_data("obj",back);
		std::string raw=s.get("obj");
		std::string eq=IO<T>::eq(orig,back)?"1":"0";
		// ... and through save() -> signed client-side cookie -> load() of the next request's session object
		ad.name=s.session_cookie_name();
		s.save();
		if(ad.value.empty()) eq+=":no-cookie";
		else {
			null_adapter ad2; ad2.name=ad.name; ad2.value=ad.value;
			cppcms::session_interface s2(*the_pool,ad2);
			s2.load();
			T back2=T();
			size_t jl=jlog.size();
			s2.fetch_data("obj",back2);
			jlog.resize(jl,std::make_pair(std::string(),std::string()));
			if(!IO<T>::eq(orig,back2) || s2.get("obj")!=raw) eq+=":cookie-differs";
		}
		r+="S="+hex(raw)+" eq="+eq+" v="; IO<T>::print(back,r);
	} catch(std::exception const &e) { r+="S-threw:"+status_of(e); }
	try {
		cppcms::cache_interface c(*the_service);
		c.store_data("obj",orig);
		T back=T();
		bool found=c.fetch_data("obj",back);
		std::string raw; c.fetch_frame("obj",raw,true);
		c.rise("obj");
		r+=std::string(" C=")+hex(raw)+" found="+(found?"1":"0")+" eq="+(IO<T>::eq(orig,back)?"1":"0")+" v="; IO<T>::print(back,r);
	} catch(std::exception const &e) { r+=" C-threw:"+status_of(e); }
	return r;
}
template<class T> static typename std::enable_if<!std::is_base_of<cppcms::serializable_base,T>::value,std::string>::type do_sc(std::string const &)
{
	return "NOT-SERIALIZABLE";
}
// arbitrary bytes stored under a session key / as a cache frame, then fetch_data
template<class T> static typename std::enable_if<std::is_base_of<cppcms::serializable_base,T>::value,std::string>::type do_scl(std::string const &bytes)
{
	make_service();
	std::string r="S:";
	{
		null_adapter ad;
		cppcms::session_interface s(*the_pool,ad);
		s.load();
		s.set("obj",bytes);
		T back=T();
		try { s.fetch_data("obj",back); r+="ok v="; IO<T>::print(back,r); }
		catch(std::exception const &e) { r+=status_of(e); }
		catch(...) { r+="exc:unknown"; }
	}
	r+=" C:";
	{
		cppcms::cache_interface c(*the_service);
		c.store_frame("raw",bytes);
		T back=T();
		try { bool found=c.fetch_data("raw",back); r+=found?"ok v=":"notfound v="; IO<T>::print(back,r); }
		catch(std::exception const &e) { r+=status_of(e); }
		catch(...) { r+="exc:unknown"; }
		c.rise("raw");
	}
	return r;
}
template<class T> static typename std::enable_if<!std::is_base_of<cppcms::serializable_base,T>::value,std::string>::type do_scl(std::string const &)
{
	return "NOT-SERIALIZABLE";
}
#else
template<class T> static std::string do_sc(std::string const &){ return "NO-SERVICE"; }
template<class T> static std::string do_scl(std::string const &){ return "NO-SERVICE"; }
#endif

// ---------------------------------------------------------------- session map format (session_interface::save_data/load_data)
//   sd <hexbytes> j        a storage backend hands these bytes to session_interface::load()
//   ss <entries> j         entries [k:e:v,...] (hex key, exposed 0/1, hex value; "-" = empty, "*N" = N bytes 'x'): set/expose them on a
//                          new session, save() through the backend, load() them in the session object of the next request
#ifdef C19_WITH_SERVICE
static std::string g_store; static bool g_has;
struct mem_api : public cppcms::session_api {
	virtual void save(cppcms::session_interface &,std::string const &data,time_t,bool,bool){ g_store=data; g_has=true; }
	virtual bool load(cppcms::session_interface &,std::string &data,time_t &timeout){ if(!g_has) return false; data=g_store; timeout=time(0)+3600; return true; }
	virtual void clear(cppcms::session_interface &){ g_has=false; g_store.clear(); }
	virtual bool is_blocking(){ return false; }
};
struct mem_factory : public cppcms::session_api_factory {
	virtual bool requires_gc(){ return false; }
	virtual void gc(){}
	virtual booster::shared_ptr<cppcms::session_api> get(){ return booster::shared_ptr<cppcms::session_api>(new mem_api()); }
};
static cppcms::session_pool *mem_pool;
static void make_mem_pool()
{
	if(mem_pool) return;
	cppcms::json::value cfg;
	cfg["session"]["location"]="none";
	mem_pool=new cppcms::session_pool(cfg);
	mem_pool->backend(std::unique_ptr<cppcms::session_api_factory>(new mem_factory()));
	mem_pool->init();
}
static std::string sess_status(std::exception const &e)
{
	char const *w=e.what();
	if(strstr(w,"violation -> pack")) return "err:pack";
	if(strstr(w,"violation data")) return "err:data";
	if(strstr(w,"key too long")) return "err:keylong";
	if(strstr(w,"value too long")) return "err:vallong";
	std::string s="exc:"; s+=typeid(e).name(); return s;
}
static std::string sess_print(cppcms::session_interface &s)
{
	std::set<std::string> ks=s.key_set();
	std::string r="[";
	for(std::set<std::string>::const_iterator i=ks.begin();i!=ks.end();++i) {
		if(i!=ks.begin()) r+=",";
		r+=hex(*i)+":"+(s.is_exposed(*i)?"1":"0")+":"+hex(s.get(*i));
	}
	return r+"]";
}
static std::string do_sd(std::string const &bytes)
{
	make_mem_pool();
	g_store=bytes; g_has=true;
	null_adapter ad;
	cppcms::session_interface s(*mem_pool,ad);
	try { s.load(); }
	catch(std::exception const &e) { return sess_status(e); }
	catch(...) { return "exc:unknown"; }
	return "ok "+sess_print(s);
}
static std::string expand(std::string const &t){ if(!t.empty() && t[0]=='*') return std::string(strtoul(t.c_str()+1,0,10),'x'); return unhex(t); }
static std::string do_ss(std::string const &text)
{
	make_mem_pool();
	g_store.clear(); g_has=false;
	std::string r;
	try {
		null_adapter ad; ad.name="none";
		cppcms::session_interface s(*mem_pool,ad);
		s.load();
		std::string body=text.substr(1,text.size()-2);     // [ ... ]
		size_t pos=0;
		while(pos<body.size()) {
			size_t e=body.find(',',pos); if(e==std::string::npos) e=body.size();
			std::string item=body.substr(pos,e-pos); pos=e+1;
			size_t c1=item.find(':'),c2=item.rfind(':');
			if(c1==std::string::npos || c2==c1) return "BAD-VALUE";
			std::string k=expand(item.substr(0,c1)),v=expand(item.substr(c2+1));
			s.set(k,v);
			s.expose(k,item[c1+1]=='1');
		}
		std::string want=sess_print(s);
		s.save();
		r=std::string("D=")+(g_has?hex(g_store):std::string("none"));
		null_adapter ad2;
		cppcms::session_interface s2(*mem_pool,ad2);
		s2.load();
		std::string got=sess_print(s2);
		r+=" ok "+got+" eq="+(got==want?"1":"0");
	}
	catch(std::exception const &e) { return sess_status(e); }
	catch(...) { return "exc:unknown"; }
	return r;
}
#else
static std::string do_sd(std::string const &){ return "NO-SERVICE"; }
static std::string do_ss(std::string const &){ return "NO-SERVICE"; }
#endif

struct entry { std::string spec; std::string (*ld)(std::string const &); std::string (*rt)(std::string const &); std::string (*sc)(std::string const &); std::string (*scl)(std::string const &);
	bool (*sv)(cppcms::archive &,std::string const &); std::string (*lv)(cppcms::archive &,std::string const &);
	std::string (*rd)(std::string const &,std::string const &); };
C19_GLOBAL std::vector<entry> table;
template<class T> static void reg(){ entry e; e.spec=IO<T>::spec(); e.ld=&do_ld<T>; e.rt=&do_rt<T>; e.sc=&do_sc<T>; e.scl=&do_scl<T>; e.sv=&do_sv<T>; e.lv=&do_lv<T>; e.rd=&do_rd<T>; table.push_back(e); }

// ---------------------------------------------------------------- per-case watchdog
// No case may run unbounded: the loops of archive_traits are driven by archive contents (element counts), and a loader that
// stops consuming bytes turns a count of 2^31 (or 2^63) into a loop that only the count bounds.  Budget per case: CPU time of the
// process (not wall: the machine is shared) and a generous wall-clock limit for a case that blocks.
static char wd_line[64]; static size_t wd_len;
static void wd_fire(int sig)
{
	char buf[96]; size_t n=0;
	for(size_t i=0;i<wd_len;i++) buf[n++]=wd_line[i];
	char const *t=(sig==SIGPROF) ? " HANG cpu-budget-exceeded\n" : " HANG wall-budget-exceeded\n";
	while(*t) buf[n++]=*t++;
	ssize_t r=write(1,buf,n); (void)r;
	_exit(75);
}
static long wd_cpu_ms=1500,wd_wall_ms=30000;
static void wd_init()
{
	if(char const *e=getenv("C19_CASE_CPU_MS")) wd_cpu_ms=atol(e);
	if(char const *e=getenv("C19_CASE_WALL_MS")) wd_wall_ms=atol(e);
	struct sigaction sa; memset(&sa,0,sizeof(sa)); sa.sa_handler=wd_fire; sigemptyset(&sa.sa_mask);
	sigaction(SIGPROF,&sa,0); sigaction(SIGALRM,&sa,0);
#if !defined(__SANITIZE_ADDRESS__)
	// address space cap (the sanitized builds use ASAN_OPTIONS=hard_rss_limit_mb instead)
	struct rlimit rl; rl.rlim_cur=rl.rlim_max=(rlim_t)6<<30; setrlimit(RLIMIT_AS,&rl);
#endif
}
static void wd_arm(std::string const &op)
{
	wd_len=op.size()<32?op.size():32; memcpy(wd_line,op.data(),wd_len);
	struct itimerval tv; memset(&tv,0,sizeof(tv));
	tv.it_value.tv_sec=wd_cpu_ms/1000; tv.it_value.tv_usec=(wd_cpu_ms%1000)*1000; setitimer(ITIMER_PROF,&tv,0);
	tv.it_value.tv_sec=wd_wall_ms/1000; tv.it_value.tv_usec=(wd_wall_ms%1000)*1000; setitimer(ITIMER_REAL,&tv,0);
}
static void wd_disarm()
{
	struct itimerval tv; memset(&tv,0,sizeof(tv)); setitimer(ITIMER_PROF,&tv,0); setitimer(ITIMER_REAL,&tv,0);
}

typedef std::string str;
void fill_part1(); void fill_part2(); void fill_part3();
#if C19_PART==-1 || C19_PART==1
void fill_part1()
{
	reg<int>();                                                              // 0  p4
	reg<char>();                                                             // 1  p1
	reg<unsigned long long>();                                               // 2  p8
	reg<double>();                                                           // 3  p8
	reg<str>();                                                              // 4  s
	reg<std::vector<char> >();                                               // 5  v1
	reg<std::vector<short> >();                                              // 6  v2
	reg<std::vector<int> >();                                                // 7  v4
	reg<std::vector<double> >();                                             // 8  v8
	reg<std::vector<str> >();                                                // 9  Ls
	reg<std::list<std::pair<int,str> > >();                                  // 10 LPp4s
	reg<std::set<str> >();                                                   // 11 Ss
	reg<std::set<int> >();                                                   // 12 Sp4
	reg<std::map<str,std::vector<int> > >();                                 // 13 Msv4
	reg<std::map<int,std::set<short> > >();                                  // 14 Mp4Sp2
	reg<booster::shared_ptr<str> >();                                        // 15 Os
	reg<std::vector<booster::shared_ptr<std::vector<str> > > >();            // 16 LOLs
	reg<std::vector<std::vector<str> > >();                                  // 17 LLs
}
#endif
#if C19_PART==-1 || C19_PART==2
void fill_part2()
{
	reg<std::pair<char,unsigned long long> >();                              // 18 Pp1p8
	reg<std::set<std::pair<int,str> > >();                                   // 19 SPp4s
	reg<jw>();                                                               // 20 J
	reg<std::vector<jw> >();                                                 // 21 LJ
	reg<std::map<str,jw> >();                                                // 22 MsJ
	reg<rec2>();                                                             // 23
	reg<rec3>();                                                             // 24
	reg<rec1>();                                                             // 25
	reg<std::map<str,rec2> >();                                              // 26
	reg<booster::copy_ptr<std::list<long long> > >();                        // 27 OLp8
	reg<std::vector<std::map<short,booster::shared_ptr<str> > > >();         // 28 LMp2Os
	reg<std::list<std::vector<float> > >();                                  // 29 Lv4
	reg<booster::hold_ptr<str> >();                                          // 30 Os
}
#endif
#if C19_PART==-1 || C19_PART==3
void fill_part3()
{
	reg<std::unique_ptr<std::vector<int> > >();                              // 31 Ov4
	reg<booster::clone_ptr<cl_str> >();                                      // 32 Os
	reg<std::vector<booster::copy_ptr<std::pair<short,str> > > >();          // 33 LOPp2s
	reg<cl_str>();                                                           // 34 s (serializable: session/cache)
	reg<std::multiset<int> >();                                              // 35 Bp4
	reg<std::multimap<str,short> >();                                        // 36 Nsp2
	reg<booster::intrusive_ptr<rc_rec> >();                                  // 37 OPp4s
	reg<wchar_t>();                                                          // 38 p4
	reg<std::vector<long double> >();                                        // 39 v16
	reg<std::map<int,std::multiset<str> > >();                               // 40 Mp4Bs
	reg<std::pair<std::vector<int>,str> >();                                 // 41 Pv4s
	reg<std::vector<std::vector<int> > >();                                  // 42 Lv4
	reg<std::pair<str,int> >();                                              // 43 Psp4
	reg<std::vector<std::pair<std::vector<char>,std::vector<double> > > >(); // 44 LPv1v8
	reg<std::map<int,std::vector<char> > >();                                // 45 Mp4v1
	reg<std::pair<booster::shared_ptr<std::vector<short> >,str> >();         // 46 POv2s
	reg<std::pair<std::set<int>,std::pair<std::list<str>,int> > >();         // 47 PSp4PLsp4
	reg<rec4>();                                                             // 48 (serializable: session/cache)
	reg<std::vector<std::vector<std::vector<short> > > >();                  // 49 LLv2
	reg<std::map<std::vector<short>,str> >();                                // 50 Mv2s
	reg<std::list<std::pair<str,std::vector<unsigned char> > > >();          // 51 LPsv1
}
#endif
#if C19_PART<=0
static void fill_table()
{
	// the order is the type id
	fill_part1(); fill_part2(); fill_part3();
}

int main()
{
	fill_table();
	wd_init();
	std::string line;
	while(std::getline(std::cin,line)) {
		std::vector<std::string> v=split(line);
		std::string out;
		jlog.clear();
		wd_arm(v.empty()?std::string("?"):v[0]);
		if(v.size()==2 && v[0]=="spin") { volatile unsigned long long x=0; for(;;) x=x+1; }   // self-test of the watchdog
		if(v.size()>=5 && v[0]=="sq" && v.size()%3==2) {
			cppcms::archive a; bool ok=true; size_t n=(v.size()-2)/3;
			for(size_t i=0;i<n && ok;i++) {
				size_t id=strtoul(v[1+3*i].c_str(),0,10);
				if(id>=table.size() || table[id].spec!=v[2+3*i] || !table[id].sv(a,v[3+3*i])) ok=false;
			}
			if(!ok) out="sq BAD-VALUE";
			else {
				std::string bytes=a.str();
				out="sq A="+hex(bytes);
				cppcms::archive b; b.str(bytes);
				for(size_t i=0;i<n;i++) {
					size_t id=strtoul(v[1+3*i].c_str(),0,10);
					std::string r;
					if(i%2==1) {
						// every second object is read from a COPY of the archive, which is then assigned back:
						// copy construction and assignment carry the read position
						cppcms::archive c(b);
						r=table[id].lv(c,v[3+3*i]);
						b=c;
					}
					else r=table[id].lv(b,v[3+3*i]);
					out+=" | "+r;
					if(r.compare(0,2,"ok")!=0) break;
				}
				out+=" | "+jlog_text();
			}
		}
		else if(v.size()==3 && v[0]=="sd") out="sd "+do_sd(unhex(v[1]));
		else if(v.size()==3 && v[0]=="ss") out="ss "+do_ss(v[1]);
		else if(v.size()==1 && v[0]=="types") {
			out="types";
			for(size_t i=0;i<table.size();i++) out+=" "+itos(i)+"="+table[i].spec;
		}
		else if(v.size()==6 && v[0]=="rd") {
			size_t id=strtoul(v[1].c_str(),0,10);
			if(id>=table.size() || table[id].spec!=v[2]) out="rd BAD-SPEC";
			else { out="rd "+table[id].rd(v[3],v[4]); out+=" "+jlog_text(); }
		}
		else if(v.size()>=4 && (v[0]=="ld" || v[0]=="mu" || v[0]=="tr" || v[0]=="rt" || v[0]=="sc" || v[0]=="scl" || v[0]=="muh")) {
			size_t id=strtoul(v[1].c_str(),0,10);
			if(id>=table.size() || table[id].spec!=v[2]) out=v[0]+" BAD-SPEC";
			else if(v[0]=="ld" && v.size()==5) { out="ld "+table[id].ld(unhex(v[3])); out+=" "+jlog_text(); }
			else if((v[0]=="mu" || v[0]=="muh") && v.size()==7) {
				std::string b=unhex(v[5]); size_t off=strtoul(v[3].c_str(),0,10); unsigned long long val=strtoull(v[4].c_str(),0,10);
				if(off+4>b.size()) out=v[0]+" BAD-OFFSET";
				else { for(int i=0;i<4;i++) b[off+i]=char((val>>(8*i))&0xff); out=v[0]+" "+table[id].ld(b); out+=" "+jlog_text(); }
			}
			else if(v[0]=="tr" && v.size()==6) {
				std::string b=unhex(v[4]); size_t k=strtoul(v[3].c_str(),0,10);
				if(k>b.size()) out="tr BAD-K";
				else {
					std::string full=table[id].ld(b);
					size_t sp=full.find(" v=");
					if(sp!=std::string::npos) full=full.substr(0,sp);
					out="tr F:"+full+" T:"; out+=table[id].ld(b.substr(0,k)); out+=" "+jlog_text();
				}
			}
			else if(v[0]=="rt" && v.size()==5) { out="rt "+table[id].rt(v[3]); out+=" "+jlog_text(); }
			else if(v[0]=="sc" && v.size()==5) { out="sc "+table[id].sc(v[3]); out+=" "+jlog_text(); }
			else if(v[0]=="scl" && v.size()==5) { out="scl "+table[id].scl(unhex(v[3])); out+=" "+jlog_text(); }
			else out="BAD-CASE";
		}
		else out="BAD-CASE";
		wd_disarm();
		std::cout<<out<<"\n"<<std::flush;      // one write per line: after a crash or a HANG exit the supervisor knows exactly which case it was
	}
	return 0;
}
#endif
