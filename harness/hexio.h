// shared helpers for the correspondence harnesses: one case per input line, one result per line
#pragma once
#include <string>
#include <vector>
#include <sstream>
#include <iostream>
#include <stdio.h>
namespace hx {
inline int hv(char c){ if(c>='0'&&c<='9') return c-'0'; if(c>='a'&&c<='f') return c-'a'+10; if(c>='A'&&c<='F') return c-'A'+10; return -1; }
inline std::string unhex(std::string const &s){ std::string r; if(s=="-") return r; for(size_t i=0;i+1<s.size();i+=2) r+=char(hv(s[i])*16+hv(s[i+1])); return r; }
inline std::string hex(std::string const &s){ if(s.empty()) return "-"; static const char *d="0123456789abcdef"; std::string r; r.reserve(s.size()*2); for(size_t i=0;i<s.size();i++){ unsigned char c=s[i]; r+=d[c>>4]; r+=d[c&15]; } return r; }
inline std::vector<std::string> split(std::string const &l){ std::vector<std::string> v; std::istringstream ss(l); std::string t; while(ss>>t) v.push_back(t); return v; }
}
