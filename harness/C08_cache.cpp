// C08 correspondence + oracle harness for the cache part: operation sequences against the real cache back ends of
// the current tree.  src/cache_storage.cpp of the tree under test is compiled INTO this harness (textual include,
// built with -fno-access-control) so that the harness can also read the private state of the very objects it drives:
// the recency list `lru`, the `timeout` multimap, `size`, `triggers_count`, the four-index consistency, and the
// process-wide shared-memory allocator (process_settings::process_memory) - none of it is re-implemented here.
// time() is interposed: the cache reads the virtual clock below.  Global operator new/delete are replaced by counting
// versions so that the heap footprint of a thread_shared cache can be compared before/after fill-clear cycles.
//
// case line:   seq <backend> <limit> <t0> <op> <op> ...
//   backend    t = thread_shared, p<KiB> = process_shared with that much shared memory (forked child per case: the
//              shared segment is a process-wide singleton that is never released)
//   op         S:<key>:<value>:<trig+trig..|.>:<deadline>:<gen|->   store
//              F:<key>  fetch     R:<trigger>  rise     D:<key>  remove     C  clear     T:<now>  set the clock
//   strings are hex, `-` is the empty string; a value may be written  #<len>x<hex prefix>  (prefix then 'v' up to len)
// answer line: one token per op: <tag><result>:<keys>/<triggers>:<lru keys, most recent first, comma separated | . when empty>
//   fetch hit  h:<value>:<sorted triggers>:<deadline>:<generation>:<k>/<t>:<lru>     miss  m:<k>/<t>:<lru>
//   then one token   X:<timeout index as deadline=key,...>:<consistency flags or ok>[:U<used0>/<used1>]
//   (process back end: bytes of the shared segment in in-use pages after construction / after a final clear())
//   values longer than 32 bytes are printed as #<len>.<fnv1a64 of the first 32 bytes>.<number of later bytes that are not v>
//
//              cyc <backend> <limit> <value size> <stores per cycle> <cycles> <t0> <how: c|r|d|m>
//   fill / read back / empty cycles; how = clear, rise("all"), remove each key, mixed.  Answer: one token per cycle
//   <keys>/<triggers>/<hits>/<bad>/<keys after emptying>/<triggers after>/<free bytes after emptying>/<max chunk>  preceded by
//   I:<free bytes before the first fill>/<max chunk>   (free bytes = -(bytes in in-use pages of the segment), resp.
//   -(live heap bytes) for the thread back end; 1 = page headers do not tile; max chunk = max_available() or 0)
#include <set>
#include <map>
#include <list>
#include <string>
#include <vector>
#include <iostream>
#include <sstream>
#include <new>
#include <malloc.h>
#include <string.h>
#include <stdlib.h>
#include <unistd.h>
#include <signal.h>
#include <sys/wait.h>
#include <time.h>
#include <src/cache_storage.cpp>
#include "hexio.h"
using namespace hx;

static volatile time_t vnow = 1000;
static volatile unsigned long time_calls = 0;
extern "C" time_t time(time_t *t) { time_calls++; if(t) *t = vnow; return vnow; }

static long live_bytes = 0;
void *operator new(size_t n) { void *p=malloc(n?n:1); if(!p) throw std::bad_alloc(); live_bytes+=malloc_usable_size(p); return p; }
void *operator new[](size_t n) { void *p=malloc(n?n:1); if(!p) throw std::bad_alloc(); live_bytes+=malloc_usable_size(p); return p; }
void operator delete(void *p) noexcept { if(p) { live_bytes-=malloc_usable_size(p); free(p); } }
void operator delete[](void *p) noexcept { if(p) { live_bytes-=malloc_usable_size(p); free(p); } }
void operator delete(void *p,size_t) noexcept { if(p) { live_bytes-=malloc_usable_size(p); free(p); } }
void operator delete[](void *p,size_t) noexcept { if(p) { live_bytes-=malloc_usable_size(p); free(p); } }

typedef booster::intrusive_ptr<cppcms::impl::base_cache> cache_ptr;
typedef cppcms::impl::mem_cache<cppcms::impl::thread_settings> tcache;
typedef cppcms::impl::mem_cache<cppcms::impl::process_settings> pcache;

static std::vector<std::string> splitc(std::string const &s,char sep)
{
	std::vector<std::string> v; std::string cur;
	for(size_t i=0;i<s.size();i++) { if(s[i]==sep) { v.push_back(cur); cur.clear(); } else cur+=s[i]; }
	v.push_back(cur);
	return v;
}
static std::string value_of(std::string const &t)
{
	if(!t.empty() && t[0]=='#') {
		size_t x=t.find('x');
		size_t len=strtoul(t.substr(1,x-1).c_str(),0,10);
		std::string r=unhex(t.substr(x+1));
		if(r.size()<len) r.append(len-r.size(),'v');
		return r;
	}
	return unhex(t);
}
static std::string valtok(std::string const &v)
{
	if(v.size()<=32) return hex(v);
	unsigned long long h=14695981039346656037ULL;
	for(size_t i=0;i<32;i++) { h^=(unsigned char)v[i]; h*=1099511628211ULL; }
	size_t odd=0;
	for(size_t i=32;i<v.size();i++) if(v[i]!='v') odd++;
	char buf[96]; snprintf(buf,sizeof(buf),"#%zu.%016llx.%zu",v.size(),h,odd);
	return buf;
}
static std::set<std::string> trigset(std::string const &t)
{
	std::set<std::string> s;
	if(t==".") return s;
	std::vector<std::string> v=splitc(t,'+');
	for(size_t i=0;i<v.size();i++) s.insert(unhex(v[i]));
	return s;
}
static std::string trigtok(std::set<std::string> const &s)
{
	if(s.empty()) return ".";
	std::string r;
	for(std::set<std::string>::const_iterator p=s.begin();p!=s.end();++p) { if(p!=s.begin()) r+='+'; r+=hex(*p); }
	return r;
}

// ---- reading the private state of the real object ----
template<typename C>
static std::string lru_tok(C *m)
{
	std::string r;
	for(typename C::pointer_list_type::iterator p=m->lru.begin();p!=m->lru.end();++p) {
		if(!r.empty()) r+=',';
		r+=hex(std::string((*p)->first.c_str(),(*p)->first.size()));
	}
	return r.empty() ? "." : r;
}
template<typename C>
static std::string timeout_tok(C *m)
{
	std::string r;
	for(typename C::timeout_mmap_type::iterator p=m->timeout.begin();p!=m->timeout.end();++p) {
		if(!r.empty()) r+=',';
		char buf[32]; snprintf(buf,sizeof(buf),"%lld=",(long long)p->first);
		r+=buf+hex(std::string(p->second->first.c_str(),p->second->first.size()));
	}
	return r.empty() ? "-" : r;
}
// mirror consistency of the four indexes and the two counters, evaluated on the real containers
template<typename C>
static std::string consistency(C *m)
{
	std::string bad;
	size_t n=0,tr=0;
	for(typename C::map_type::iterator p=m->primary.begin();p!=m->primary.end();++p) {
		n++;
		tr+=p->second.triggers.size();
		if(*(p->second.lru)!=p) bad+="lru-backptr,";
		if(p->second.timeout->second!=p) bad+="timeout-backptr,";
		for(typename C::triggers_list_type::iterator t=p->second.triggers.begin();t!=p->second.triggers.end();++t)
			if(*(t->second)!=p) bad+="trigger-backptr,";
	}
	if(n!=m->size) bad+="size-counter,";
	if(tr!=m->triggers_count) bad+="triggers-counter,";
	if(m->lru.size()!=n) bad+="lru-length,";
	if(m->timeout.size()!=n) bad+="timeout-length,";
	size_t links=0;
	for(typename C::triggers_map_type::iterator t=m->triggers.begin();t!=m->triggers.end();++t) {
		if(t->second.empty()) bad+="empty-trigger-list,";
		links+=t->second.size();
	}
	if(links!=tr) bad+="trigger-index-size,";
	return bad.empty() ? "ok" : bad;
}

struct view {
	cache_ptr c; tcache *t; pcache *p;
	view(cache_ptr cc,bool process) : c(cc),t(0),p(0) {
		if(process) p=static_cast<pcache *>(c.get()); else t=static_cast<tcache *>(c.get());
	}
	std::string lru() { return t ? lru_tok(t) : lru_tok(p); }
	std::string timeouts() { return t ? timeout_tok(t) : timeout_tok(p); }
	std::string cons() { return t ? consistency(t) : consistency(p); }
	std::string stats() {
		unsigned k=~0u,tr=~0u; c->stats(k,tr);
		char buf[64]; snprintf(buf,sizeof(buf),"%u/%u:",k,tr);
		return buf+lru();
	}
};

static std::string run_seq(view &w,std::vector<std::string> const &v,size_t first)
{
	cache_ptr c=w.c;
	std::string out;
	for(size_t i=first;i<v.size();i++) {
		std::vector<std::string> f=splitc(v[i],':');
		if(i>first) out+=' ';
		std::string const &o=f[0];
		if(o=="S" && f.size()==6) {
			std::string key=unhex(f[1]),val=value_of(f[2]);
			std::set<std::string> tr=trigset(f[3]);
			time_t dl=strtoll(f[4].c_str(),0,10);
			if(f[5]=="-") c->store(key,val,tr,dl);
			else { cppcms::uint64_t g=strtoull(f[5].c_str(),0,10); c->store(key,val,tr,dl,&g); }
			out+="s:"+w.stats();
		}
		else if(o=="F" && f.size()==2) {
			std::string val; std::set<std::string> tr; time_t dl=-12345; cppcms::uint64_t g=999999;
			bool hit=c->fetch(unhex(f[1]),&val,&tr,&dl,&g);
			if(hit) {
				char buf[96]; snprintf(buf,sizeof(buf),":%lld:%llu:",(long long)dl,(unsigned long long)g);
				out+="h:"+valtok(val)+":"+trigtok(tr)+buf+w.stats();
			}
			else out+="m:"+w.stats();
		}
		else if(o=="R" && f.size()==2) { c->rise(unhex(f[1])); out+="r:"+w.stats(); }
		else if(o=="D" && f.size()==2) { c->remove(unhex(f[1])); out+="d:"+w.stats(); }
		else if(o=="C") { c->clear(); out+="c:"+w.stats(); }
		else if(o=="T" && f.size()==2) { vnow=strtoll(f[1].c_str(),0,10); out+="t:"+w.stats(); }
		else out+="BAD-OP";
	}
	out+=" X:"+w.timeouts()+":"+w.cons();
	return out;
}

// run f in a forked child, return its single output line (or a crash marker)
template<typename F>
static std::string in_child(F f)
{
	int fd[2];
	if(pipe(fd)!=0) return "<harness pipe failed>";
	fflush(stdout);
	pid_t pid=fork();
	if(pid<0) return "<harness fork failed>";
	if(pid==0) {
		close(fd[0]);
		alarm(120);
		std::string r;
		try { r=f(); }
		catch(std::exception const &e) { r=std::string("<exception ")+e.what()+">"; }
		catch(...) { r="<exception unknown>"; }
		size_t off=0;
		while(off<r.size()) { ssize_t n=write(fd[1],r.data()+off,r.size()-off); if(n<=0) break; off+=n; }
		close(fd[1]);
		_exit(0);
	}
	close(fd[1]);
	std::string r; char buf[65536]; ssize_t n;
	while((n=read(fd[0],buf,sizeof(buf)))>0) r.append(buf,n);
	close(fd[0]);
	int st=0; waitpid(pid,&st,0);
	if(WIFSIGNALED(st)) { char b[64]; snprintf(b,sizeof(b),"<crash signal=%d> ",WTERMSIG(st)); return b+r; }
	if(WIFEXITED(st) && WEXITSTATUS(st)!=0) { char b[64]; snprintf(b,sizeof(b),"<crash exit=%d> ",WEXITSTATUS(st)); return b+r; }
	return r;
}

static cppcms::impl::shmem_control *shm() { return cppcms::impl::process_settings::process_memory; }
// bytes of the shared segment that are in pages marked in-use, found by walking the real page headers
// (layout independent, unlike total_free_memory() which subtracts one header per free page); -1 = headers do not tile
static long shm_used()
{
	typedef cppcms::impl::buddy_allocator buddy;
	buddy *b=shm()->memory_;
	char *mem=b->memory();
	size_t pos=0; long used=0;
	while(b->memory_size_-pos >= 2*buddy::alignment) {
		buddy::page *p=reinterpret_cast<buddy::page *>(mem+pos);
		int bits=p->bits & 0xFF;
		if((p->bits & ~0x1FF)!=0 || bits<buddy::alignment_bits || bits>62 || pos+(size_t(1)<<bits)>b->memory_size_) return -1;
		if(p->bits & 0x100) used+=long(1)<<bits;
		pos+=size_t(1)<<bits;
	}
	return used;
}

struct seq_job {
	std::vector<std::string> const *v; size_t kib; unsigned limit;
	std::string operator()() const {
		cache_ptr c=cppcms::impl::process_cache_factory(kib*1024,limit);
		long u0=shm_used();
		view w(c,true);
		std::string out=run_seq(w,*v,4);
		c->clear();
		char buf[96]; snprintf(buf,sizeof(buf),":U%ld/%ld",u0,shm_used());
		return out+buf;
	}
};

struct cyc_job {
	size_t kib; unsigned limit; size_t vsz; unsigned n,cycles; char how;
	long avail() const { long u = kib ? shm_used() : live_bytes; return kib && u<0 ? 1 : -u; }
	long maxav() const { return kib ? (long)shm()->max_available() : 0; }
	std::string operator()() const {
		cache_ptr c = kib ? cppcms::impl::process_cache_factory(kib*1024,limit) : cppcms::impl::thread_cache_factory(limit);
		std::vector<long> rec; rec.reserve(8*cycles+8);
		{ long a=avail(),m=maxav(); rec.push_back(a); rec.push_back(m); }
		for(unsigned cy=0;cy<cycles;cy++) {
			unsigned keys=0,trg=0,hits=0,bad=0,keys2=0,trg2=0;
			{
				for(unsigned i=0;i<n;i++) {
					char k[32]; snprintf(k,sizeof(k),"key%u",i);
					std::string val(vsz,char('a'+i%26));
					std::set<std::string> tr; tr.insert("all"); if(i%2) tr.insert("odd");
					c->store(k,val,tr,vnow+100);
				}
				c->stats(keys,trg);
				for(unsigned i=0;i<n;i++) {
					char k[32]; snprintf(k,sizeof(k),"key%u",i);
					std::string val;
					if(c->fetch(k,val,0)) { hits++; if(val!=std::string(vsz,char('a'+i%26))) bad++; }
				}
				char h = how=='m' ? "crd"[cy%3] : how;
				if(h=='d') { for(unsigned i=0;i<n;i++) { char k[32]; snprintf(k,sizeof(k),"key%u",i); c->remove(k); } }
				else if(h=='r') c->rise("all");
				else c->clear();
				c->stats(keys2,trg2);
			}
			long a=avail(),m=maxav();
			rec.push_back(keys); rec.push_back(trg); rec.push_back(hits); rec.push_back(bad); rec.push_back(keys2); rec.push_back(trg2);
			rec.push_back(a); rec.push_back(m);
		}
		std::ostringstream out;
		out<<"I:"<<rec[0]<<"/"<<rec[1];
		for(size_t i=2;i+7<rec.size();i+=8) {
			out<<" ";
			for(int j=0;j<8;j++) { if(j) out<<"/"; out<<rec[i+j]; }
		}
		return out.str();
	}
};

static bool self_test()
{
	// the cache must read our clock: deadline == now hits, deadline == now-1 misses, and a far clock misses
	cache_ptr c=cppcms::impl::thread_cache_factory(0);
	std::set<std::string> none; std::string tmp;
	vnow=1000; unsigned long before=time_calls;
	c->store("a","x",none,1000); c->store("b","y",none,999);
	bool ok = c->fetch("a",tmp,0) && !c->fetch("b",tmp,0);
	vnow=1001; ok = ok && !c->fetch("a",tmp,0);
	vnow=0; ok = ok && c->fetch("a",tmp,0) && c->fetch("b",tmp,0);
	ok = ok && time_calls>=before+5;
	vnow=1000;
	return ok;
}

int main(int argc,char **argv)
{
	if(!self_test()) { std::cout<<"<time() interposition does not work>"<<std::endl; return 3; }
	std::string line;
	while(std::getline(std::cin,line)) {
		std::vector<std::string> v=split(line);
		std::string out;
		alarm(300);
		if(v.size()>=4 && v[0]=="seq") {
			unsigned limit=strtoul(v[2].c_str(),0,10);
			vnow=strtoll(v[3].c_str(),0,10);
			if(v[1]=="t") {
				cache_ptr c=cppcms::impl::thread_cache_factory(limit);
				view w(c,false);
				out=run_seq(w,v,4);
			}
			else if(v[1][0]=='p' || v[1][0]=='P') {
				seq_job j; j.v=&v; j.kib=strtoul(v[1].c_str()+1,0,10); j.limit=limit;
				out=in_child(j);
			}
			else out="BAD-CASE";
		}
		else if(v.size()==8 && v[0]=="cyc") {
			cyc_job j; j.kib = v[1]=="t" ? 0 : strtoul(v[1].c_str()+1,0,10);
			j.limit=strtoul(v[2].c_str(),0,10); j.vsz=strtoul(v[3].c_str(),0,10);
			j.n=strtoul(v[4].c_str(),0,10); j.cycles=strtoul(v[5].c_str(),0,10);
			vnow=strtoll(v[6].c_str(),0,10); j.how=v[7][0];
			out=in_child(j);
		}
		else out="BAD-CASE";
		std::cout<<out<<"\n";
	}
	std::cout.flush();
	return 0;
}
