// C08 correspondence + oracle harness for the cache part: operation sequences against the real cache back ends of
// the current tree.  src/cache_storage.cpp of the tree under test is compiled INTO this harness (textual include,
// built with -fno-access-control) so that the harness can also read the private state of the very objects it drives:
// the recency list `lru`, the `timeout` multimap, `size`, `triggers_count`, the four-index consistency, and the
// process-wide shared-memory allocator (process_settings::process_memory) - none of it is re-implemented here.
// time() is interposed: the cache reads the virtual clock below.  Global operator new/delete are replaced by counting
// versions (exact requested bytes) so that the heap footprint of a thread_shared cache can be compared before/after fill-clear cycles.
//
// case line:   seq <backend> <limit> <t0> <op> <op> ...
//   backend    t = thread_shared, p<KiB> = process_shared with that much shared memory (forked child per case: the
//              shared segment is a process-wide singleton that is never released)
//   op         S:<key>:<value>:<trig+trig..|.>:<deadline>:<gen|->   store
//              F:<key>  fetch     R:<trigger>  rise     D:<key>  remove     C  clear     T:<now>  set the clock
//   strings are hex, `-` is the empty string; a value may be written  #<len>x<hex prefix>  (prefix then 'v' up to len)
// answer line: one token per op: <tag><result>:<keys>/<triggers>:<lru keys, most recent first, comma separated | . when empty>
//   fetch hit  h:<value>:<sorted triggers>:<deadline>:<generation>:<k>/<t>:<lru>     miss  m:<k>/<t>:<lru>
//   then one token   X:<timeout index as deadline=key,...>:<consistency flags or ok>[:U<used0>/<used1>]
//   (process back end: bytes of the shared segment in in-use pages after construction / after a final clear())
//   values longer than 32 bytes are printed as #<len>.<fnv1a64 of the first 32 bytes>.<number of later bytes that are not v>
//
//              cyc <backend> <limit> <value size> <stores per cycle> <cycles> <t0> <how: c|r|d|m>
//   fill / read back / empty cycles; how = clear, rise("all"), remove each key, mixed.  Answer: one token per cycle
//   <keys>/<triggers>/<hits>/<bad>/<keys after emptying>/<triggers after>/<free bytes after emptying>/<max chunk>  preceded by
//   I:<free bytes before the first fill>/<max chunk>   (free bytes = -(bytes in in-use pages of the segment), resp.
//   -(live heap bytes) for the thread back end; 1 = page headers do not tile; max chunk = max_available() or 0)
//
//              exh <KiB> <limit> <t0> <probe percent> <step> <step> ...
//   allocator exhaustion INSIDE insertions on one process_shared cache (forked child), with the real buddy allocator's
//   accounting read out.  Steps (one answer token each):
//     M                          measure: M:<keys>/<triggers>:<bytes in in-use pages>:<total_free_memory>:<max_free_chunk>:
//                                <free pages by header walk as offset.order,... | n<count>.<hash> when more than 24>:<flags | ok>
//                                flags: tiling (headers do not tile), lists (free lists != free pages of the walk),
//                                buddies (two free buddies of one order coexist), index-* (four-index consistency of the cache)
//     H<size>:<keep>:<stride>    hog: shm malloc(<size>) until it returns null, then give back <keep> of the blocks, every
//                                <stride>-th counted from the last one (a second tenant of the same segment); answers H<blocks held>
//     U                          give back all hog blocks; answers U
//     S:<klen>:<vlen>:<ntrig>:<tlo>-<thi>:<id>   store key K<id>_ padded with k to <klen> chars, value of <vlen> bytes, <ntrig>
//                                triggers T<id>_<j>_ padded with t to tlo+(7j mod (thi-tlo+1)) chars; answers s<keys>/<triggers>
//                                (s!<keys>/<triggers> when std::bad_alloc came out of store())
//     F:<klen>:<vlen>:<id>       fetch that key: h1 (hit, value as stored) h0 (hit, wrong value) m
//     D:<klen>:<id>              remove that key; answers d<keys>/<triggers>
//     R:<tlo>-<thi>:<id>:<j>     rise of that trigger; answers r<keys>/<triggers>
//     C                          clear(); answers c<keys>/<triggers>
//     P                          probe: store + fetch + remove one value of <probe percent> % of the segment: P1 (came back intact)
//                                P0 (refused: fetch missed) PX (wrong bytes)
//
//              inj <limit> <t0> <klen> <vlen> <ntrig> <tlo>-<thi> <kmax> <npre>
//   failure injection on a thread_shared cache: for k = 1..kmax the cache is emptied, <npre> entries P<i>_ (key length klen, value
//   of vlen bytes, one shared trigger A_ of length tlo) are stored, then the k-th allocation (operator new) during ONE store of
//   key K<k>_ (same syntax as the S step of exh) throws std::bad_alloc.  One answer token per k:
//   <fired 0|1>:<keys>/<triggers>:<fetch of the key: h1|h0|m>:<live heap bytes after clear() minus those of the empty cache>:<index flags|ok>
//   (`!` in front of <keys> when std::bad_alloc came out of store()).   inj2 ...: the same, but the allocation AFTER the failing one fails
//   too: with a limit this is the bucket vector nl_clear() re-creates inside the bad_alloc handler of store
//
//              injf <limit> <t0> <klen> <vlen> <kmax>
//   failure injection into fetch on a thread_shared cache holding three entries A B C (stored in that order): for k = 1..kmax the
//   k-th allocation during fetch(A, value, triggers) throws.  One token per k:
//   <fired 0|1>:<threw 0|1>:<hit h1|h0|m|->:<recency list, first letters, most recent first>:<index flags|ok>:<heap delta after clear()>
#include <set>
#include <map>
#include <list>
#include <string>
#include <vector>
#include <iostream>
#include <sstream>
#include <new>
#include <malloc.h>
#include <string.h>
#include <stdlib.h>
#include <unistd.h>
#include <signal.h>
#include <sys/wait.h>
#include <time.h>
#include <src/cache_storage.cpp>
#include "hexio.h"
using namespace hx;

static volatile time_t vnow = 1000;
static volatile unsigned long time_calls = 0;
extern "C" time_t time(time_t *t) { time_calls++; if(t) *t = vnow; return vnow; }

static long live_bytes = 0;
// failure injection for the thread_shared back end (std::allocator -> operator new): the fail_countdown-th allocation from now throws
static volatile long fail_countdown = 0;
static volatile bool fail_fired = false;
static volatile long fail_burst = 1;	// number of consecutive allocations that fail once the countdown is reached
static inline void maybe_fail()
{
	if(fail_countdown>0 && --fail_countdown==0) {
		fail_fired=true;
		if(fail_burst>1) { fail_burst--; fail_countdown=1; }
		throw std::bad_alloc();
	}
}
// exact accounting: the requested size is kept in a 16-byte header in front of every block (malloc_usable_size would make the balance
// depend on how glibc happens to split its chunks: the same request can come back 16 bytes larger)
static inline void *cnt_alloc(size_t n)
{
	maybe_fail();
	char *p=static_cast<char *>(malloc(n+16));
	if(!p) throw std::bad_alloc();
	*reinterpret_cast<size_t *>(p)=n;
	live_bytes+=long(n);
	return p+16;
}
static inline void cnt_free(void *q)
{
	if(!q) return;
	char *p=static_cast<char *>(q)-16;
	live_bytes-=long(*reinterpret_cast<size_t *>(p));
	free(p);
}
void *operator new(size_t n) { return cnt_alloc(n); }
void *operator new[](size_t n) { return cnt_alloc(n); }
void operator delete(void *p) noexcept { cnt_free(p); }
void operator delete[](void *p) noexcept { cnt_free(p); }
void operator delete(void *p,size_t) noexcept { cnt_free(p); }
void operator delete[](void *p,size_t) noexcept { cnt_free(p); }

typedef booster::intrusive_ptr<cppcms::impl::base_cache> cache_ptr;
typedef cppcms::impl::mem_cache<cppcms::impl::thread_settings> tcache;
typedef cppcms::impl::mem_cache<cppcms::impl::process_settings> pcache;

static std::vector<std::string> splitc(std::string const &s,char sep)
{
	std::vector<std::string> v; std::string cur;
	for(size_t i=0;i<s.size();i++) { if(s[i]==sep) { v.push_back(cur); cur.clear(); } else cur+=s[i]; }
	v.push_back(cur);
	return v;
}
static std::string value_of(std::string const &t)
{
	if(!t.empty() && t[0]=='#') {
		size_t x=t.find('x');
		size_t len=strtoul(t.substr(1,x-1).c_str(),0,10);
		std::string r=unhex(t.substr(x+1));
		if(r.size()<len) r.append(len-r.size(),'v');
		return r;
	}
	return unhex(t);
}
static std::string valtok(std::string const &v)
{
	if(v.size()<=32) return hex(v);
	unsigned long long h=14695981039346656037ULL;
	for(size_t i=0;i<32;i++) { h^=(unsigned char)v[i]; h*=1099511628211ULL; }
	size_t odd=0;
	for(size_t i=32;i<v.size();i++) if(v[i]!='v') odd++;
	char buf[96]; snprintf(buf,sizeof(buf),"#%zu.%016llx.%zu",v.size(),h,odd);
	return buf;
}
static std::set<std::string> trigset(std::string const &t)
{
	std::set<std::string> s;
	if(t==".") return s;
	std::vector<std::string> v=splitc(t,'+');
	for(size_t i=0;i<v.size();i++) s.insert(unhex(v[i]));
	return s;
}
static std::string trigtok(std::set<std::string> const &s)
{
	if(s.empty()) return ".";
	std::string r;
	for(std::set<std::string>::const_iterator p=s.begin();p!=s.end();++p) { if(p!=s.begin()) r+='+'; r+=hex(*p); }
	return r;
}

// ---- reading the private state of the real object ----
template<typename C>
static std::string lru_tok(C *m)
{
	std::string r;
	for(typename C::pointer_list_type::iterator p=m->lru.begin();p!=m->lru.end();++p) {
		if(!r.empty()) r+=',';
		r+=hex(std::string((*p)->first.c_str(),(*p)->first.size()));
	}
	return r.empty() ? "." : r;
}
template<typename C>
static std::string timeout_tok(C *m)
{
	std::string r;
	for(typename C::timeout_mmap_type::iterator p=m->timeout.begin();p!=m->timeout.end();++p) {
		if(!r.empty()) r+=',';
		char buf[32]; snprintf(buf,sizeof(buf),"%lld=",(long long)p->first);
		r+=buf+hex(std::string(p->second->first.c_str(),p->second->first.size()));
	}
	return r.empty() ? "-" : r;
}
// mirror consistency of the four indexes and the two counters, evaluated on the real containers
template<typename C>
static std::string consistency(C *m)
{
	std::string bad;
	size_t n=0,tr=0;
	for(typename C::map_type::iterator p=m->primary.begin();p!=m->primary.end();++p) {
		n++;
		tr+=p->second.triggers.size();
		if(*(p->second.lru)!=p) bad+="lru-backptr,";
		if(p->second.timeout->second!=p) bad+="timeout-backptr,";
		for(typename C::triggers_list_type::iterator t=p->second.triggers.begin();t!=p->second.triggers.end();++t)
			if(*(t->second)!=p) bad+="trigger-backptr,";
	}
	if(n!=m->size) bad+="size-counter,";
	if(tr!=m->triggers_count) bad+="triggers-counter,";
	if(m->lru.size()!=n) bad+="lru-length,";
	if(m->timeout.size()!=n) bad+="timeout-length,";
	size_t links=0;
	for(typename C::triggers_map_type::iterator t=m->triggers.begin();t!=m->triggers.end();++t) {
		if(t->second.empty()) bad+="empty-trigger-list,";
		links+=t->second.size();
	}
	if(links!=tr) bad+="trigger-index-size,";
	return bad.empty() ? "ok" : bad;
}

struct view {
	cache_ptr c; tcache *t; pcache *p;
	view(cache_ptr cc,bool process) : c(cc),t(0),p(0) {
		if(process) p=static_cast<pcache *>(c.get()); else t=static_cast<tcache *>(c.get());
	}
	std::string lru() { return t ? lru_tok(t) : lru_tok(p); }
	std::string timeouts() { return t ? timeout_tok(t) : timeout_tok(p); }
	std::string cons() { return t ? consistency(t) : consistency(p); }
	std::string stats() {
		unsigned k=~0u,tr=~0u; c->stats(k,tr);
		char buf[64]; snprintf(buf,sizeof(buf),"%u/%u:",k,tr);
		return buf+lru();
	}
};

static std::string run_seq(view &w,std::vector<std::string> const &v,size_t first)
{
	cache_ptr c=w.c;
	std::string out;
	for(size_t i=first;i<v.size();i++) {
		std::vector<std::string> f=splitc(v[i],':');
		if(i>first) out+=' ';
		std::string const &o=f[0];
		if(o=="S" && f.size()==6) {
			std::string key=unhex(f[1]),val=value_of(f[2]);
			std::set<std::string> tr=trigset(f[3]);
			time_t dl=strtoll(f[4].c_str(),0,10);
			if(f[5]=="-") c->store(key,val,tr,dl);
			else { cppcms::uint64_t g=strtoull(f[5].c_str(),0,10); c->store(key,val,tr,dl,&g); }
			out+="s:"+w.stats();
		}
		else if(o=="F" && f.size()==2) {
			std::string val; std::set<std::string> tr; time_t dl=-12345; cppcms::uint64_t g=999999;
			bool hit=c->fetch(unhex(f[1]),&val,&tr,&dl,&g);
			if(hit) {
				char buf[96]; snprintf(buf,sizeof(buf),":%lld:%llu:",(long long)dl,(unsigned long long)g);
				out+="h:"+valtok(val)+":"+trigtok(tr)+buf+w.stats();
			}
			else out+="m:"+w.stats();
		}
		else if(o=="R" && f.size()==2) { c->rise(unhex(f[1])); out+="r:"+w.stats(); }
		else if(o=="D" && f.size()==2) { c->remove(unhex(f[1])); out+="d:"+w.stats(); }
		else if(o=="C") { c->clear(); out+="c:"+w.stats(); }
		else if(o=="T" && f.size()==2) { vnow=strtoll(f[1].c_str(),0,10); out+="t:"+w.stats(); }
		else out+="BAD-OP";
	}
	out+=" X:"+w.timeouts()+":"+w.cons();
	return out;
}

// run f in a forked child, return its single output line (or a crash marker)
template<typename F>
static std::string in_child(F f)
{
	int fd[2];
	if(pipe(fd)!=0) return "<harness pipe failed>";
	fflush(stdout);
	pid_t pid=fork();
	if(pid<0) return "<harness fork failed>";
	if(pid==0) {
		close(fd[0]);
		alarm(120);
		std::string r;
		try { r=f(); }
		catch(std::exception const &e) { r=std::string("<exception ")+e.what()+">"; }
		catch(...) { r="<exception unknown>"; }
		size_t off=0;
		while(off<r.size()) { ssize_t n=write(fd[1],r.data()+off,r.size()-off); if(n<=0) break; off+=n; }
		close(fd[1]);
		_exit(0);
	}
	close(fd[1]);
	std::string r; char buf[65536]; ssize_t n;
	while((n=read(fd[0],buf,sizeof(buf)))>0) r.append(buf,n);
	close(fd[0]);
	int st=0; waitpid(pid,&st,0);
	if(WIFSIGNALED(st)) { char b[64]; snprintf(b,sizeof(b),"<crash signal=%d> ",WTERMSIG(st)); return b+r; }
	if(WIFEXITED(st) && WEXITSTATUS(st)!=0) { char b[64]; snprintf(b,sizeof(b),"<crash exit=%d> ",WEXITSTATUS(st)); return b+r; }
	return r;
}

static cppcms::impl::shmem_control *shm() { return cppcms::impl::process_settings::process_memory; }
// bytes of the shared segment that are in pages marked in-use, found by walking the real page headers
// (layout independent, unlike total_free_memory() which subtracts one header per free page); -1 = headers do not tile
static long shm_used()
{
	typedef cppcms::impl::buddy_allocator buddy;
	buddy *b=shm()->memory_;
	char *mem=b->memory();
	size_t pos=0; long used=0;
	while(b->memory_size_-pos >= 2*buddy::alignment) {
		buddy::page *p=reinterpret_cast<buddy::page *>(mem+pos);
		int bits=p->bits & 0xFF;
		if((p->bits & ~0x1FF)!=0 || bits<buddy::alignment_bits || bits>62 || pos+(size_t(1)<<bits)>b->memory_size_) return -1;
		if(p->bits & 0x100) used+=long(1)<<bits;
		pos+=size_t(1)<<bits;
	}
	return used;
}

struct seq_job {
	std::vector<std::string> const *v; size_t kib; unsigned limit;
	std::string operator()() const {
		cache_ptr c=cppcms::impl::process_cache_factory(kib*1024,limit);
		long u0=shm_used();
		view w(c,true);
		std::string out=run_seq(w,*v,4);
		c->clear();
		char buf[96]; snprintf(buf,sizeof(buf),":U%ld/%ld",u0,shm_used());
		return out+buf;
	}
};

struct cyc_job {
	size_t kib; unsigned limit; size_t vsz; unsigned n,cycles; char how;
	long avail() const { long u = kib ? shm_used() : live_bytes; return kib && u<0 ? 1 : -u; }
	long maxav() const { return kib ? (long)shm()->max_available() : 0; }
	std::string operator()() const {
		cache_ptr c = kib ? cppcms::impl::process_cache_factory(kib*1024,limit) : cppcms::impl::thread_cache_factory(limit);
		std::vector<long> rec; rec.reserve(8*cycles+8);
		{ long a=avail(),m=maxav(); rec.push_back(a); rec.push_back(m); }
		for(unsigned cy=0;cy<cycles;cy++) {
			unsigned keys=0,trg=0,hits=0,bad=0,keys2=0,trg2=0;
			{
				for(unsigned i=0;i<n;i++) {
					char k[32]; snprintf(k,sizeof(k),"key%u",i);
					std::string val(vsz,char('a'+i%26));
					std::set<std::string> tr; tr.insert("all"); if(i%2) tr.insert("odd");
					c->store(k,val,tr,vnow+100);
				}
				c->stats(keys,trg);
				for(unsigned i=0;i<n;i++) {
					char k[32]; snprintf(k,sizeof(k),"key%u",i);
					std::string val;
					if(c->fetch(k,val,0)) { hits++; if(val!=std::string(vsz,char('a'+i%26))) bad++; }
				}
				char h = how=='m' ? "crd"[cy%3] : how;
				if(h=='d') { for(unsigned i=0;i<n;i++) { char k[32]; snprintf(k,sizeof(k),"key%u",i); c->remove(k); } }
				else if(h=='r') c->rise("all");
				else c->clear();
				c->stats(keys2,trg2);
			}
			long a=avail(),m=maxav();
			rec.push_back(keys); rec.push_back(trg); rec.push_back(hits); rec.push_back(bad); rec.push_back(keys2); rec.push_back(trg2);
			rec.push_back(a); rec.push_back(m);
		}
		std::ostringstream out;
		out<<"I:"<<rec[0]<<"/"<<rec[1];
		for(size_t i=2;i+7<rec.size();i+=8) {
			out<<" ";
			for(int j=0;j<8;j++) { if(j) out<<"/"; out<<rec[i+j]; }
		}
		return out.str();
	}
};


// ---- allocator exhaustion inside insertions (exh) ----
static std::string padded(char tag,unsigned id,long j,size_t len,char fill)
{
	char b[64];
	if(j>=0) snprintf(b,sizeof(b),"%c%u_%ld_",tag,id,j); else snprintf(b,sizeof(b),"%c%u_",tag,id);
	std::string r=b;
	if(r.size()<len) r.append(len-r.size(),fill);
	return r;
}
static size_t tlen_of(std::string const &spec,long j)
{
	size_t d=spec.find('-');
	size_t lo=strtoul(spec.c_str(),0,10),hi= d==std::string::npos ? lo : strtoul(spec.c_str()+d+1,0,10);
	if(hi<lo) hi=lo;
	return lo+(size_t(j)*7)%(hi-lo+1);
}
struct exh_job {
	std::vector<std::string> const *v; size_t kib; unsigned limit; unsigned pct;
	static std::string measure(cache_ptr c,pcache *pc)
	{
		typedef cppcms::impl::buddy_allocator buddy;
		unsigned k=~0u,t=~0u; c->stats(k,t);
		buddy *b=shm()->memory_;
		char *mem=b->memory();
		std::string flags;
		std::set<std::pair<size_t,int> > walk,lists;
		size_t pos=0; long used=0; bool tiles=true;
		while(b->memory_size_-pos >= 2*buddy::alignment) {
			buddy::page *p=reinterpret_cast<buddy::page *>(mem+pos);
			int bits=p->bits & 0xFF;
			if((p->bits & ~0x1FF)!=0 || bits<=buddy::alignment_bits || bits>62 || pos+(size_t(1)<<bits)>b->memory_size_ || pos%(size_t(1)<<bits)!=0) { tiles=false; break; }
			if(p->bits & 0x100) used+=long(1)<<bits; else walk.insert(std::make_pair(pos,bits));
			pos+=size_t(1)<<bits;
		}
		if(!tiles) flags+="tiling,";
		size_t guard=0;
		for(int i=0;i<int(sizeof(void*)*8);i++)
			for(buddy::page *p=b->free_list_[i];p && guard<(size_t(1)<<22);p=p->next,guard++)
				lists.insert(std::make_pair(size_t(reinterpret_cast<char *>(p)-mem),i));
		if(tiles && lists!=walk) flags+="lists,";
		if(tiles) for(std::set<std::pair<size_t,int> >::iterator p=walk.begin();p!=walk.end();++p) {
			size_t len=size_t(1)<<p->second, bo=p->first ^ len;
			if(bo+len<=b->memory_size_ && walk.count(std::make_pair(bo,p->second))) { flags+="buddies,"; break; }
		}
		std::string cs=consistency(pc);
		if(cs!="ok") flags+="index-"+cs;
		std::ostringstream o;
		o<<"M:"<<k<<"/"<<t<<":"<<used<<":"<<shm()->available()<<":"<<shm()->max_available()<<":";
		if(walk.size()<=24) {
			bool first=true;
			for(std::set<std::pair<size_t,int> >::iterator p=walk.begin();p!=walk.end();++p) { if(!first) o<<","; first=false; o<<p->first<<"."<<p->second; }
			if(first) o<<"-";
		}
		else {
			unsigned long long h=14695981039346656037ULL;
			for(std::set<std::pair<size_t,int> >::iterator p=walk.begin();p!=walk.end();++p) { h^=p->first*64+p->second; h*=1099511628211ULL; }
			o<<"n"<<walk.size()<<"."<<std::hex<<h<<std::dec;
		}
		o<<":"<<(flags.empty() ? "ok" : flags);
		return o.str();
	}
	std::string operator()() const {
		cache_ptr c=cppcms::impl::process_cache_factory(kib*1024,limit);
		pcache *pc=static_cast<pcache *>(c.get());
		std::vector<void *> hogs;
		std::string out;
		for(size_t i=5;i<v->size();i++) {
			std::string const &st=(*v)[i];
			std::vector<std::string> f=splitc(st,':');
			if(i>5) out+=' ';
			char buf[96];
			unsigned k=0,t=0;
			if(st=="M") out+=measure(c,pc);
			else if(st[0]=='H' && f.size()==3) {
				size_t sz=strtoul(f[0].c_str()+1,0,10),keep=strtoul(f[1].c_str(),0,10),stride=strtoul(f[2].c_str(),0,10);
				if(stride<1) stride=1;
				for(;;) { void *p=shm()->malloc(sz); if(!p) break; hogs.push_back(p); if(hogs.size()>(size_t(1)<<22)) break; }
				size_t n=hogs.size();
				for(size_t j=0;j<keep && j*stride<n;j++) { void *&p=hogs[n-1-j*stride]; shm()->free(p); p=0; }
				size_t held=0; for(size_t j=0;j<hogs.size();j++) if(hogs[j]) held++;
				snprintf(buf,sizeof(buf),"H%zu",held); out+=buf;
			}
			else if(st=="U") { for(size_t j=0;j<hogs.size();j++) if(hogs[j]) shm()->free(hogs[j]); hogs.clear(); out+="U"; }
			else if(st[0]=='S' && f.size()==6) {
				unsigned id=strtoul(f[5].c_str(),0,10);
				std::string key=padded('K',id,-1,strtoul(f[1].c_str(),0,10),'k');
				std::string val(strtoul(f[2].c_str(),0,10),char('a'+id%26));
				std::set<std::string> tr;
				long nt=strtol(f[3].c_str(),0,10);
				for(long j=0;j<nt;j++) tr.insert(padded('T',id,j,tlen_of(f[4],j),'t'));
				bool threw=false;
				try { c->store(key,val,tr,vnow+1000); } catch(std::bad_alloc const &) { threw=true; }
				c->stats(k,t); snprintf(buf,sizeof(buf),"s%s%u/%u",threw?"!":"",k,t); out+=buf;
			}
			else if(st[0]=='F' && f.size()==4) {
				unsigned id=strtoul(f[3].c_str(),0,10);
				std::string key=padded('K',id,-1,strtoul(f[1].c_str(),0,10),'k'),val;
				if(!c->fetch(key,val,0)) out+="m";
				else out+= val==std::string(strtoul(f[2].c_str(),0,10),char('a'+id%26)) ? "h1" : "h0";
			}
			else if(st[0]=='D' && f.size()==3) {
				c->remove(padded('K',strtoul(f[2].c_str(),0,10),-1,strtoul(f[1].c_str(),0,10),'k'));
				c->stats(k,t); snprintf(buf,sizeof(buf),"d%u/%u",k,t); out+=buf;
			}
			else if(st[0]=='R' && f.size()==4) {
				long j=strtol(f[3].c_str(),0,10);
				c->rise(padded('T',strtoul(f[2].c_str(),0,10),j,tlen_of(f[1],j),'t'));
				c->stats(k,t); snprintf(buf,sizeof(buf),"r%u/%u",k,t); out+=buf;
			}
			else if(st=="C") {
				bool threw=false;
				try { c->clear(); } catch(std::bad_alloc const &) { threw=true; }
				c->stats(k,t); snprintf(buf,sizeof(buf),"c%s%u/%u",threw?"!":"",k,t); out+=buf;
			}
			else if(st=="P") {
				std::string val(kib*1024*pct/100,'p'),back;
				std::set<std::string> none;
				c->store("probe",val,none,vnow+1000);
				bool hit=c->fetch("probe",back,0);
				c->remove("probe");
				out+= !hit ? "P0" : back==val ? "P1" : "PX";
			}
			else out+="BAD-STEP";
		}
		return out;
	}
};


struct inj_job {
	unsigned limit; size_t klen,vlen; long nt; std::string tspec; unsigned kmax,npre; int burst;
	std::string operator()() const {
		cache_ptr c=cppcms::impl::thread_cache_factory(limit);
		tcache *tc=static_cast<tcache *>(c.get());
		c->clear();
		// no heap allocation of the harness may survive a round: answers go to a static buffer
		static char outbuf[1<<20];
		size_t off=0;
		long base=0;
		for(unsigned k=0;k<=kmax;k++) {
			unsigned ks=0,ts=0;
			bool fired=false,threw=false,broken=false;
			char const *fetched="m";
			char cs[200];
			{
				for(unsigned i=0;i<npre;i++) {
					std::set<std::string> tr; tr.insert(padded('A',0,-1,tlen_of(tspec,0),'t'));
					c->store(padded('P',i,-1,klen,'k'),std::string(vlen,char('a'+i%26)),tr,vnow+1000);
				}
				std::string key=padded('K',k,-1,klen,'k');
				std::string val(vlen,char('a'+k%26)),back;
				std::set<std::string> tr;
				for(long j=0;j<nt;j++) tr.insert(padded('T',k,j,tlen_of(tspec,j),'t'));
				if(k>0) {
					fail_fired=false; fail_burst=burst; fail_countdown=k;
					try { c->store(key,val,tr,vnow+1000); } catch(std::bad_alloc const &) { threw=true; }
					fail_countdown=0; fail_burst=1; fired=fail_fired;
				}
				c->stats(ks,ts);
				snprintf(cs,sizeof(cs),"%s",consistency(tc).c_str());
				if(strcmp(cs,"ok")==0) {	// stale indexes point at deleted entries: do not walk them
					if(c->fetch(key,back,0)) fetched = back==val ? "h1" : "h0";
					c->clear();
				}
				else broken=true;
			}
			if(k==0) { base=live_bytes; continue; }
			if(off+400<sizeof(outbuf))
				off+=snprintf(outbuf+off,sizeof(outbuf)-off,"%s%d:%s%u/%u:%s:%ld:%s",off?" ":"",fired?1:0,threw?"!":"",ks,ts,fetched,broken?0:live_bytes-base,cs);
			if(broken) break;
		}
		return std::string(outbuf,off);
	}
};


struct injf_job {
	unsigned limit; size_t klen,vlen; unsigned kmax;
	std::string operator()() const {
		cache_ptr c=cppcms::impl::thread_cache_factory(limit);
		tcache *tc=static_cast<tcache *>(c.get());
		c->clear();
		static char outbuf[1<<18];
		size_t off=0;
		long base=0;
		for(unsigned k=0;k<=kmax;k++) {
			bool fired=false,threw=false;
			char const *fetched="-";
			char cs[200],order[16];
			{
				for(unsigned i=0;i<3;i++) {
					std::set<std::string> tr; tr.insert(padded('T',i,-1,klen,'t'));
					c->store(padded(char('A'+i),0,-1,klen,'k'),std::string(vlen,char('a'+i)),tr,vnow+1000);
				}
				std::string key=padded('A',0,-1,klen,'k'),back;
				std::set<std::string> tr;
				if(k>0) {
					fail_fired=false; fail_countdown=k;
					try { bool hit=c->fetch(key,&back,&tr,0,0); fail_countdown=0; fetched = !hit ? "m" : back==std::string(vlen,'a') ? "h1" : "h0"; }
					catch(std::bad_alloc const &) { fail_countdown=0; threw=true; }
					fired=fail_fired;
				}
				snprintf(cs,sizeof(cs),"%s",consistency(tc).c_str());
				size_t n=0;
				for(tcache::pointer_list_type::iterator p=tc->lru.begin();p!=tc->lru.end() && n<8;++p) order[n++]=(*p)->first.c_str()[0];
				order[n]=0;
				if(strcmp(cs,"ok")==0) c->clear();	// a broken recency list makes clear()/remove() walk freed memory: stop here
				else { if(off+400<sizeof(outbuf)) off+=snprintf(outbuf+off,sizeof(outbuf)-off,"%s%d:%d:%s:%s:%s:0",off?" ":"",fired?1:0,threw?1:0,fetched,order,cs); break; }
			}
			if(k==0) { base=live_bytes; continue; }
			if(off+400<sizeof(outbuf))
				off+=snprintf(outbuf+off,sizeof(outbuf)-off,"%s%d:%d:%s:%s:%s:%ld",off?" ":"",fired?1:0,threw?1:0,fetched,order,cs,live_bytes-base);
		}
		return std::string(outbuf,off);
	}
};

static bool self_test()
{
	// the cache must read our clock: deadline == now hits, deadline == now-1 misses, and a far clock misses
	cache_ptr c=cppcms::impl::thread_cache_factory(0);
	std::set<std::string> none; std::string tmp;
	vnow=1000; unsigned long before=time_calls;
	c->store("a","x",none,1000); c->store("b","y",none,999);
	bool ok = c->fetch("a",tmp,0) && !c->fetch("b",tmp,0);
	vnow=1001; ok = ok && !c->fetch("a",tmp,0);
	vnow=0; ok = ok && c->fetch("a",tmp,0) && c->fetch("b",tmp,0);
	ok = ok && time_calls>=before+5;
	vnow=1000;
	return ok;
}

int main(int argc,char **argv)
{
	if(!self_test()) { std::cout<<"<time() interposition does not work>"<<std::endl; return 3; }
	std::string line;
	while(std::getline(std::cin,line)) {
		std::vector<std::string> v=split(line);
		std::string out;
		alarm(300);
		if(v.size()>=4 && v[0]=="seq") {
			unsigned limit=strtoul(v[2].c_str(),0,10);
			vnow=strtoll(v[3].c_str(),0,10);
			if(v[1]=="t") {
				cache_ptr c=cppcms::impl::thread_cache_factory(limit);
				view w(c,false);
				out=run_seq(w,v,4);
			}
			else if(v[1][0]=='p' || v[1][0]=='P') {
				seq_job j; j.v=&v; j.kib=strtoul(v[1].c_str()+1,0,10); j.limit=limit;
				out=in_child(j);
			}
			else out="BAD-CASE";
		}
		else if(v.size()==8 && v[0]=="cyc") {
			cyc_job j; j.kib = v[1]=="t" ? 0 : strtoul(v[1].c_str()+1,0,10);
			j.limit=strtoul(v[2].c_str(),0,10); j.vsz=strtoul(v[3].c_str(),0,10);
			j.n=strtoul(v[4].c_str(),0,10); j.cycles=strtoul(v[5].c_str(),0,10);
			vnow=strtoll(v[6].c_str(),0,10); j.how=v[7][0];
			out=in_child(j);
		}
		else if(v.size()==6 && v[0]=="injf") {
			injf_job j; j.limit=strtoul(v[1].c_str(),0,10); vnow=strtoll(v[2].c_str(),0,10);
			j.klen=strtoul(v[3].c_str(),0,10); j.vlen=strtoul(v[4].c_str(),0,10); j.kmax=strtoul(v[5].c_str(),0,10);
			out=in_child(j);
		}
		else if(v.size()==9 && (v[0]=="inj" || v[0]=="inj2")) {
			inj_job j; j.burst = v[0]=="inj2" ? 2 : 1; j.limit=strtoul(v[1].c_str(),0,10); vnow=strtoll(v[2].c_str(),0,10);
			j.klen=strtoul(v[3].c_str(),0,10); j.vlen=strtoul(v[4].c_str(),0,10); j.nt=strtol(v[5].c_str(),0,10); j.tspec=v[6];
			j.kmax=strtoul(v[7].c_str(),0,10); j.npre=strtoul(v[8].c_str(),0,10);
			out=in_child(j);
		}
		else if(v.size()==2 && v[0]=="exh" && v[1]=="consts") {
			// sizes the resource model (coq/C08/ResDefs.v) uses: sso object node-primary node-triggers list-node list-node-triggers rb-node bucket
			std::ostringstream o;
			o<<pcache::string_type().capacity()<<" "<<sizeof(pcache)<<" "<<sizeof(pcache::map_type::impl_type::container)<<" "
			 <<sizeof(pcache::triggers_map_type::impl_type::container)<<" "<<sizeof(std::_List_node<pcache::pointer>)<<" "
			 <<sizeof(std::_List_node<pcache::trigger_ptr_type>)<<" "<<sizeof(std::_Rb_tree_node<std::pair<const time_t,pcache::pointer> >)<<" "
			 <<sizeof(pcache::map_type::impl_type::range_type);
			out=o.str();
		}
		else if(v.size()>=6 && v[0]=="exh") {
			exh_job j; j.v=&v; j.kib=strtoul(v[1].c_str(),0,10); j.limit=strtoul(v[2].c_str(),0,10);
			vnow=strtoll(v[3].c_str(),0,10); j.pct=strtoul(v[4].c_str(),0,10);
			out=in_child(j);
		}
		else out="BAD-CASE";
		std::cout<<out<<"\n";
	}
	std::cout.flush();
	return 0;
}
