// C10: tiny translation unit for the source tie of the wire protocol. checks/C10.py:gen_proto reads the values of these
// enumerators (evaluated by clang from private/tcp_cache_protocol.h as it is now) and of namespace opcodes from the AST.
#include "tcp_cache_protocol.h"
#include <stddef.h>
namespace c10_layout {
	typedef cppcms::impl::tcp_operation_header H;
	enum {
		size_of_header = sizeof(H),
		off_opcode = offsetof(H,opcode),
		off_size = offsetof(H,size),
		off_filler = offsetof(H,filler),
		off_fetch_current_gen = offsetof(H,operations.fetch.current_gen),
		off_fetch_key_len = offsetof(H,operations.fetch.key_len),
		off_rise_trigger_len = offsetof(H,operations.rise.trigger_len),
		off_store_timeout = offsetof(H,operations.store.timeout),
		off_store_key_len = offsetof(H,operations.store.key_len),
		off_store_data_len = offsetof(H,operations.store.data_len),
		off_store_triggers_len = offsetof(H,operations.store.triggers_len),
		off_data_generation = offsetof(H,operations.data.generation),
		off_data_timeout = offsetof(H,operations.data.timeout),
		off_data_data_len = offsetof(H,operations.data.data_len),
		off_data_triggers_len = offsetof(H,operations.data.triggers_len),
		off_out_stats_keys = offsetof(H,operations.out_stats.keys),
		off_out_stats_triggers = offsetof(H,operations.out_stats.triggers),
		size_of_time_t = sizeof(time_t)
	};
}
