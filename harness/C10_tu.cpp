// C10: tiny translation unit for the source tie of the wire protocol. checks/C10.py:gen_proto reads the values of these
// enumerators (evaluated by clang from private/tcp_cache_protocol.h as it is now) and of namespace opcodes from the AST.
#include "tcp_cache_protocol.h"
#include <stddef.h>
namespace c10_layout {
	typedef cppcms::impl::tcp_operation_header H;
	enum {
		size_of_header = sizeof(H),
		off_opcode = offsetof(H,opcode),
		off_size = offsetof(H,size),
		off_filler = offsetof(H,filler),
		off_fetch_current_gen = offsetof(H,operations.fetch.current_gen),
		off_fetch_key_len = offsetof(H,operations.fetch.key_len),
		off_rise_trigger_len = offsetof(H,operations.rise.trigger_len),
		off_store_timeout = offsetof(H,operations.store.timeout),
		off_store_key_len = offsetof(H,operations.store.key_len),
		off_store_data_len = offsetof(H,operations.store.data_len),
		off_store_triggers_len = offsetof(H,operations.store.triggers_len),
		off_data_generation = offsetof(H,operations.data.generation),
		off_data_timeout = offsetof(H,operations.data.timeout),
		off_data_data_len = offsetof(H,operations.data.data_len),
		off_data_triggers_len = offsetof(H,operations.data.triggers_len),
		off_out_stats_keys = offsetof(H,operations.out_stats.keys),
		off_out_stats_triggers = offsetof(H,operations.out_stats.triggers),
		size_of_time_t = sizeof(time_t),
		// sizes of the fields (a changed field type breaks coq/C10/Link.v link_field_sizes even when no offset moves)
		size_of_opcode = sizeof(H::opcode),
		size_of_size = sizeof(H::size),
		size_of_filler = sizeof(H::filler),
		size_of_operations = sizeof(H::operations),
		size_of_fetch_current_gen = sizeof(((H*)0)->operations.fetch.current_gen),
		size_of_fetch_key_len = sizeof(((H*)0)->operations.fetch.key_len),
		size_of_rise_trigger_len = sizeof(((H*)0)->operations.rise.trigger_len),
		size_of_store_timeout = sizeof(((H*)0)->operations.store.timeout),
		size_of_store_key_len = sizeof(((H*)0)->operations.store.key_len),
		size_of_store_data_len = sizeof(((H*)0)->operations.store.data_len),
		size_of_store_triggers_len = sizeof(((H*)0)->operations.store.triggers_len),
		size_of_data_generation = sizeof(((H*)0)->operations.data.generation),
		size_of_data_timeout = sizeof(((H*)0)->operations.data.timeout),
		size_of_data_data_len = sizeof(((H*)0)->operations.data.data_len),
		size_of_data_triggers_len = sizeof(((H*)0)->operations.data.triggers_len),
		size_of_out_stats_keys = sizeof(((H*)0)->operations.out_stats.keys),
		size_of_out_stats_triggers = sizeof(((H*)0)->operations.out_stats.triggers),
		size_of_fetch_struct = sizeof(((H*)0)->operations.fetch),
		size_of_store_struct = sizeof(((H*)0)->operations.store),
		size_of_data_struct = sizeof(((H*)0)->operations.data),
		off_operations = offsetof(H,operations)
	};
}
