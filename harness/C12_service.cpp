// C12 correspondence harness (b): the request-level path through a real in-process cppcms::service.
// One SCGI acceptor on a unix socket; one application mounted asynchronous|content_filter, so that its main()
// runs once when the headers are ready (sets the per-request limits, the read buffer size and the content
// filter) and once when http::request says the content is ready.  The client side (main thread) sends the
// body in the segments given by the case, waiting after each one until the server has drained its socket,
// so segment edges are real read edges (in addition to the edges made by the server's own buffer size).
// Path exercised: cgi::connection::load_content / on_some_content_read -> http::context::on_headers_ready ->
// http::request::on_content_start / get_buffer / on_content_progress (limits, multipart_parser, size_ok,
// eof-vs-declared-length, filters, parse_form_urlencoded) -> handle_http_error (400/413) or the application.
//
// case:   rq <mode> <cl_limit> <mp_limit> <mem_limit> <bufsize> <declared> <ct-hex> <cuts> <body-hex> [expectation]
//         mode: n = no filter, m = multipart_filter, r = raw_content_filter
//         cuts: "-" | b<k> | o1,o2,...     (as in C12_multipart.cpp)
// answer: rq <status|none> P <n> <name>=<value>.. F <n> <name>,<filename>,<mime>,<data>.. L new=<n> ready=<n>[:<name>,<filename>,<mime>,<data>..]
//            end=<n> err=<n> raw=<hex> tmp=<files in the upload dir when the application ran>,<after the request was destroyed> [flags]
#include <cppcms/service.h>
#include <cppcms/application.h>
#include <cppcms/applications_pool.h>
#include <cppcms/http_request.h>
#include <cppcms/http_response.h>
#include <cppcms/http_context.h>
#include <cppcms/http_file.h>
#include <cppcms/http_content_filter.h>
#include <cppcms/mount_point.h>
#include <cppcms/json.h>
#include <dlfcn.h>
#include <sys/socket.h>
#include <sys/un.h>
#include <sys/ioctl.h>
#include <sys/stat.h>
#include <dirent.h>
#include <poll.h>
#include <unistd.h>
#include <signal.h>
#include <errno.h>
#include <string.h>
#include <thread>
#include <mutex>
#include <atomic>
#include <algorithm>
#include "hexio.h"
using namespace hx;

static std::atomic<int> last_accepted_fd(-1);
static std::atomic<long> accept_count(0);
extern "C" int accept(int fd, struct sockaddr *a, socklen_t *l)
{
	typedef int (*fn)(int, struct sockaddr *, socklen_t *);
	static fn real = (fn)dlsym(RTLD_NEXT, "accept");
	int r = real(fd, a, l);
	if (r >= 0) { last_accepted_fd = r; accept_count++; }
	return r;
}

static std::string g_dir, g_updir;

static int count_dir(std::string const &dir)
{
	int n = 0;
	DIR *d = opendir(dir.c_str());
	if (!d) return -1;
	while (struct dirent *e = readdir(d)) {
		if (strcmp(e->d_name, ".") == 0 || strcmp(e->d_name, "..") == 0) continue;
		n++;
	}
	closedir(d);
	return n;
}

// descriptors of this process that are open on a file inside the upload directory (a removed but still open
// file shows up as "<path> (deleted)" and is counted as well)
static int count_fds(std::string const &dir)
{
	int n = 0;
	DIR *d = opendir("/proc/self/fd");
	if (!d) return -1;
	std::string pre = dir + "/";
	while (struct dirent *e = readdir(d)) {
		if (e->d_name[0] == '.') continue;
		char buf[4096];
		std::string lnk = std::string("/proc/self/fd/") + e->d_name;
		ssize_t k = readlink(lnk.c_str(), buf, sizeof(buf) - 1);
		if (k <= 0) continue;
		buf[k] = 0;
		if (strncmp(buf, pre.c_str(), pre.size()) == 0) n++;
	}
	closedir(d);
	return n;
}

// ------------------------------------------------------------------------------------------ server side
struct req_log {
	int n_new, n_end, n_err, n_main2, tmp_main, raw_chunks, fd_main, tmp_acts, fd_acts;
	std::vector<std::string> readyd;
	std::string raw, dump;
	std::vector<std::string> flags;
	void clear() { n_new = n_end = n_err = n_main2 = raw_chunks = 0; tmp_main = -1; fd_main = tmp_acts = fd_acts = -1; readyd.clear(); raw.clear(); dump.clear(); flags.clear(); }
};
static std::mutex g_mx;
static req_log g_log;
static std::atomic<int> g_live(0);   // context-specific objects alive = requests not yet destroyed
static void flag(char const *f) { std::lock_guard<std::mutex> g(g_mx); g_log.flags.push_back(f); }

struct life { life() { g_live++; } ~life() { g_live--; } };
static std::string g_hand;
static std::vector<std::string> g_datas;   // contents of the uploaded files of the current request (to check files made permanent)
static std::vector<booster::shared_ptr<cppcms::http::file> > g_kept;   // references the application keeps beyond the request
static std::string read_whole(std::string const &path)
{
	std::string r; FILE *f = fopen(path.c_str(), "rb"); if (!f) return r;
	char buf[65536]; size_t n; while ((n = fread(buf, 1, sizeof(buf), f)) > 0) r.append(buf, n);
	fclose(f); return r;
}

static std::string slurp(cppcms::http::file &f)
{
	std::string res;
	std::istream &in = f.data();
	in.clear();
	in.seekg(0);
	std::streambuf *buf = in.rdbuf();
	int c;
	while ((c = buf->sbumpc()) != EOF) res += char(c);
	return res;
}

// what a reading filter does with the stream of a part; nothing is rewound afterwards
static std::string rd(cppcms::http::file &f, char how)
{
	std::istream &in = f.data(); std::string got; int c;
	switch (how) {
	case 'a': while ((c = in.rdbuf()->sbumpc()) != EOF) got += char(c); break;                       // all, buffer level
	case 'p': { long long n = f.size() / 2; while (n-- > 0 && (c = in.rdbuf()->sbumpc()) != EOF) got += char(c); } break;
	case 'e': in.seekg(0, std::ios_base::end); break;
	case 'm': in.seekg(f.size() / 2); break;
	case 's': { char buf[256]; while (in.read(buf, sizeof(buf)) || in.gcount() > 0) got.append(buf, in.gcount()); } break;   // stream level: leaves eofbit|failbit
	default: break;
	}
	return got;
}

struct mp_filter : public cppcms::http::multipart_filter {
	std::string rmode;   // mode R<new><progress><ready>: the filter READS in its callbacks and leaves the stream as it is
	long long last_size; std::string last_partial; bool open; int abort_at, seen;
	mp_filter(int ab = 0) : last_size(0), open(false), abort_at(ab), seen(0) {}
	virtual void on_new_file(cppcms::http::file &f)
	{
		if (open) flag("NEW-BEFORE-READY");
		open = true; last_size = 0; last_partial.clear();
		if (f.size() != 0) flag("NEW-FILE-NOT-EMPTY");
		{ std::lock_guard<std::mutex> g(g_mx); g_log.n_new++; }
		if (!rmode.empty()) { rd(f, rmode[0]); return; }
		if (++seen == abort_at) throw cppcms::http::abort_upload(403);   // mode a<k>: the filter refuses the k-th entry
	}
	virtual void on_upload_progress(cppcms::http::file &f)
	{
		if (!open) flag("PROGRESS-WITHOUT-NEW");
		if (!rmode.empty()) { rd(f, rmode[1]); return; }
		long long sz = f.size();
		if (sz < last_size) flag("PROGRESS-SHRINKS");
		std::string d = slurp(f);
		if ((long long)d.size() != sz) flag("PROGRESS-SIZE-VS-DATA");
		if (d.compare(0, last_partial.size(), last_partial) != 0) flag("PROGRESS-NOT-EXTENSION");
		last_size = sz; last_partial = d;
	}
	virtual void on_data_ready(cppcms::http::file &f)
	{
		if (!open) flag("READY-WITHOUT-NEW");
		open = false;
		if (!rmode.empty()) {
			std::string seen = rd(f, rmode[2]);
			std::lock_guard<std::mutex> g(g_mx);
			g_log.readyd.push_back(hex(f.name()) + "," + hex(f.filename()) + "," + hex(f.mime()) + "," + ((rmode[2] == 'a' || rmode[2] == 's') ? hex(seen) : std::string("*")));
			return;
		}
		std::string d = slurp(f);
		if ((long long)d.size() != f.size()) flag("READY-SIZE-VS-DATA");
		if (d.compare(0, last_partial.size(), last_partial) != 0) flag("READY-NOT-EXTENSION");
		f.data().clear(); f.data().seekg(0);
		std::lock_guard<std::mutex> g(g_mx);
		g_log.readyd.push_back(hex(f.name()) + "," + hex(f.filename()) + "," + hex(f.mime()) + "," + hex(d));
	}
	virtual void on_end_of_content() { if (open) flag("END-BEFORE-READY"); std::lock_guard<std::mutex> g(g_mx); g_log.n_end++; }
	virtual void on_error() { std::lock_guard<std::mutex> g(g_mx); g_log.n_err++; }
};

struct raw_filter : public cppcms::http::raw_content_filter {
	virtual void on_data_chunk(void const *p, size_t n)
	{
		if (n == 0) flag("EMPTY-RAW-CHUNK");
		std::lock_guard<std::mutex> g(g_mx); g_log.raw.append((char const *)p, n); g_log.raw_chunks++;
	}
	virtual void on_end_of_content() { std::lock_guard<std::mutex> g(g_mx); g_log.n_end++; }
	virtual void on_error() { std::lock_guard<std::mutex> g(g_mx); g_log.n_err++; }
};

class upload : public cppcms::application {
public:
	upload(cppcms::service &s) : cppcms::application(s) {}
	virtual void main(std::string)
	{
		cppcms::http::request &rq = request();
		if (!rq.is_ready()) {
			// headers are ready, content not yet read
			context().reset_specific<life>(new life());
			std::string v;
			if ((v = rq.get("cl")) != "") rq.limits().content_length_limit(atoll(v.c_str()));
			if ((v = rq.get("mp")) != "") rq.limits().multipart_form_data_limit(atoll(v.c_str()));
			if ((v = rq.get("mem")) != "") rq.limits().file_in_memory_limit(size_t(atoll(v.c_str())));
			if ((v = rq.get("buf")) != "") rq.setbuf(atoi(v.c_str()));
			rq.limits().uploads_path(g_updir);
			std::string mode = rq.get("mode");
			if (mode == "m") rq.reset_content_filter(new mp_filter());
			else if (mode[0] == 'a') rq.reset_content_filter(new mp_filter(atoi(mode.c_str() + 1)));
			else if (mode[0] == 'R' && mode.size() == 4) { mp_filter *f = new mp_filter(); f->rmode = mode.substr(1); rq.reset_content_filter(f); }
			else if (mode == "r") rq.reset_content_filter(new raw_filter());
			return;
		}
		if (!context().get_specific<life>()) context().reset_specific<life>(new life());   // Content-Length: 0
		std::string b;
		if (rq.path_info() == "/g") {
			// gq: what request::prepare made of QUERY_STRING
			std::vector<std::string> v;
			typedef cppcms::http::request::form_type form_type;
			for (form_type::const_iterator p = rq.get().begin(); p != rq.get().end(); ++p) v.push_back(hex(p->first) + "=" + hex(p->second));
			std::sort(v.begin(), v.end());
			std::ostringstream ss; ss << "G " << v.size();
			for (size_t i = 0; i < v.size(); i++) ss << " " << v[i];
			{ std::lock_guard<std::mutex> g(g_mx); g_log.n_main2++; g_log.dump = ss.str(); }
			response().set_plain_text_header();
			response().out() << "ok";
			release_context()->async_complete_response();
			return;
		}
		{
			std::vector<std::string> v;
			typedef cppcms::http::request::form_type form_type;
			for (form_type::const_iterator p = rq.post().begin(); p != rq.post().end(); ++p) v.push_back(hex(p->first) + "=" + hex(p->second));
			std::sort(v.begin(), v.end());
			std::ostringstream ss; ss << "P " << v.size();
			for (size_t i = 0; i < v.size(); i++) ss << " " << v[i];
			b += ss.str();
		}
		{
			cppcms::http::request::files_type f = rq.files();
			std::ostringstream ss; ss << " F " << f.size();
			std::vector<std::string> datas;
			int handed_cut = 0; bool rmode = rq.get("mode").size() == 4 && rq.get("mode")[0] == 'R';
			// action P<k>: make file k permanent WITHOUT ever reading it (reading flushes the put area): its content is taken from the
			// file that stays in the upload directory after the request is gone
			int skip = -1;
			{
				std::string a0 = rq.get("act"); size_t pp = a0.find('P');
				if (pp != std::string::npos) { size_t k = strtoul(a0.c_str() + pp + 1, 0, 10); if (k < f.size() && f[k]->size() > atoll(rq.get("mem").c_str())) skip = int(k); }
			}
			for (size_t i = 0; i < f.size(); i++) {
				if (int(i) == skip) {
					datas.push_back("@PERM@");
					ss << " " << hex(f[i]->name()) << "," << hex(f[i]->filename()) << "," << hex(f[i]->mime()) << ",@PERM@";
					continue;
				}
				std::string asis;
				if (rmode) { int c; while ((c = f[i]->data().rdbuf()->sbumpc()) != EOF) asis += char(c); }   // the stream as it is handed over
				std::string d = slurp(*f[i]);
				if (rmode && asis != d) handed_cut++;
				if ((long long)d.size() != f[i]->size()) flag("FILE-SIZE-VS-DATA");
				datas.push_back(d);
				ss << " " << hex(f[i]->name()) << "," << hex(f[i]->filename()) << "," << hex(f[i]->mime()) << "," << hex(d);
			}
			b += ss.str();
			if (rmode) { std::ostringstream hh; hh << " hand=" << handed_cut; g_hand = hh.str(); } else g_hand.clear();
			{ std::lock_guard<std::mutex> g(g_mx); g_datas = datas; }
			{ std::lock_guard<std::mutex> g(g_mx); g_log.tmp_main = count_dir(g_updir); g_log.fd_main = count_fds(g_updir); }
			// what the application does with the uploaded files: act=<c|s|p|k><index>.<...>
			std::string acts = rq.get("act");
			size_t pos = 0; int nsaved = 0; std::vector<bool> touched(f.size(), false);
			while (pos < acts.size()) {
				size_t e = acts.find('.', pos); if (e == std::string::npos) e = acts.size();
				std::string a = acts.substr(pos, e - pos); pos = e + 1;
				if (a.size() < 2) continue;
				size_t k = strtoul(a.c_str() + 1, 0, 10);
				if (k >= f.size()) continue;
				try {
					switch (a[0]) {
					case 'c': f[k]->close(); touched[k] = true; break;
					case 's': {
							std::ostringstream tn; tn << g_dir << "/saved/" << nsaved++;
							long long before = f[k]->size();
							f[k]->save_to(tn.str());
							std::string got = read_whole(tn.str());
							// saving a file that was neither closed nor saved before must store exactly the uploaded bytes
							if (!touched[k] && (got != datas[k] || before != (long long)got.size())) flag("SAVED-CONTENT-DIFFERS");
							touched[k] = true;
							::unlink(tn.str().c_str());
						}
						break;
					case 'p': case 'P': f[k]->make_permanent(); break;
					case 'k': g_kept.push_back(f[k]); break;
					}
				}
				catch (std::exception const &) { flag("ACT-THREW"); }
			}
			{ std::lock_guard<std::mutex> g(g_mx); g_log.tmp_acts = count_dir(g_updir); g_log.fd_acts = count_fds(g_updir); }
		}
		if (rq.raw_post_data().second != 0 && rq.content_type_parsed().is_multipart_form_data()) flag("RAW-POST-DATA-KEPT");
		{
			std::lock_guard<std::mutex> g(g_mx);
			g_log.n_main2++; g_log.dump = b;
		}
		response().set_plain_text_header();
		response().out() << "ok";
		release_context()->async_complete_response();
	}
};

// ------------------------------------------------------------------------------------------ client side
struct client {
	int fd, srv_fd;
	client() : fd(-1), srv_fd(-1) {}
	void closefd() { if (fd >= 0) { ::close(fd); fd = -1; } }
	bool open()
	{
		closefd();
		long before = accept_count;
		fd = socket(AF_UNIX, SOCK_STREAM, 0);
		sockaddr_un a; memset(&a, 0, sizeof(a)); a.sun_family = AF_UNIX;
		std::string p = g_dir + "/scgi.sock";
		strncpy(a.sun_path, p.c_str(), sizeof(a.sun_path) - 1);
		if (connect(fd, (sockaddr *)&a, sizeof(a)) != 0) return false;
		for (int i = 0; i < 40000 && accept_count == before; i++) usleep(50);
		srv_fd = (accept_count == before) ? -1 : int(last_accepted_fd);
		return true;
	}
	void wait_consumed()
	{
		for (int i = 0; i < 100000; i++) {
			if (srv_fd < 0) { usleep(200); return; }
			int n = 0;
			if (ioctl(srv_fd, FIONREAD, &n) != 0) return;
			if (n == 0) return;
			usleep(10);
		}
	}
	bool send_all(std::string const &s)
	{
		size_t off = 0;
		while (off < s.size()) {
			ssize_t n = ::send(fd, s.data() + off, s.size() - off, MSG_NOSIGNAL);
			if (n <= 0) { if (n < 0 && errno == EINTR) continue; return false; }
			off += n;
		}
		return true;
	}
	std::string read_all(bool &timeout, int timeout_ms = 30000)
	{
		std::string buf; timeout = false;
		for (;;) {
			pollfd p; p.fd = fd; p.events = POLLIN; p.revents = 0;
			int r = poll(&p, 1, timeout_ms);
			if (r <= 0) { timeout = true; break; }
			char tmp[65536];
			ssize_t n = ::recv(fd, tmp, sizeof(tmp), 0);
			if (n <= 0) break;
			buf.append(tmp, n);
		}
		return buf;
	}
};

static std::vector<size_t> parse_cuts(std::string const &c, size_t n)
{
	std::vector<size_t> ends;
	if (c == "-") { }
	else if (c[0] == 'b') {
		size_t k = strtoull(c.c_str() + 1, 0, 10); if (k < 1) k = 1;
		for (size_t o = k; o < n; o += k) ends.push_back(o);
	}
	else {
		std::string t; std::istringstream ss(c);
		while (std::getline(ss, t, ',')) { size_t o = strtoull(t.c_str(), 0, 10); if (o > 0 && o < n && (ends.empty() || o > ends.back())) ends.push_back(o); }
	}
	ends.push_back(n);
	return ends;
}

int main()
{
	signal(SIGPIPE, SIG_IGN);
	char const *base = getenv("C12_TMPDIR");
	std::string t = std::string(base ? base : "/tmp") + "/C12-svc-XXXXXX";
	std::vector<char> tb(t.begin(), t.end()); tb.push_back(0);
	if (!mkdtemp(&tb[0])) { perror("mkdtemp"); return 2; }
	g_dir = &tb[0];
	g_updir = g_dir + "/up";
	mkdir(g_updir.c_str(), 0700);
	mkdir((g_dir + "/saved").c_str(), 0700);
	cppcms::json::value cfg;
	cfg["service"]["api"] = "scgi";
	cfg["service"]["socket"] = g_dir + "/scgi.sock";
	cfg["service"]["worker_threads"] = 1;
	cfg["security"]["content_length_limit"] = 1;          // KiB; every case sets its own limits in bytes
	cfg["security"]["multipart_form_data_limit"] = 1;
	cfg["security"]["uploads_path"] = g_updir;
	cfg["logging"]["level"] = "emergency";
	int rc = 0;
	try {
		cppcms::service srv(cfg);
		srv.applications_pool().mount(cppcms::create_pool<upload>(), cppcms::mount_point(""), cppcms::app::asynchronous | cppcms::app::content_filter);
		std::thread th([&srv]() { try { srv.run(); } catch (std::exception const &e) { std::cout << "SERVICE-THREW " << e.what() << std::endl; _exit(3); } });
		{ client c; int tries = 0; while (!c.open() && tries++ < 4000) usleep(5000); c.closefd(); usleep(2000); }
		std::string line;
		while (std::getline(std::cin, line)) {
			alarm(300); // watchdog against a hanging request
			std::vector<std::string> v = split(line);
			bool rf = !v.empty() && v[0] == "rf";
			bool gq = !v.empty() && v[0] == "gq" && v.size() >= 2;
			if (gq) {
				// gq <query-hex> [expectation]  ==  GET /g?<query> without content
				std::vector<std::string> w;
				w.push_back("rq"); w.push_back("n"); w.push_back("0"); w.push_back("0"); w.push_back("0"); w.push_back("64"); w.push_back("0");
				w.push_back("-"); w.push_back("-"); w.push_back("-");
				w.push_back(v[1]);
				v = w;
			}
			else if (rf && v.size() >= 11) { /* rf = rq + <acts> */ }
			else if (!((v.size() == 10 || v.size() == 11) && v[0] == "rq")) { std::cout << "BAD-CASE" << std::endl; continue; }
			for (int i = 0; i < 200000 && g_live > 0; i++) usleep(100);   // previous request fully gone
			{ std::lock_guard<std::mutex> g(g_mx); g_log.clear(); }
			std::string mode = v[1], ct = unhex(v[7]), body = unhex(v[9]);
			long long declared = atoll(v[6].c_str());
			std::string q = "mode=" + mode + "&cl=" + v[2] + "&mp=" + v[3] + "&mem=" + v[4] + "&buf=" + v[5];
			if (rf && v[10] != "-") q += "&act=" + v[10];
			if (gq) q = unhex(v[10]);
			g_kept.clear();
			int dir_base = count_dir(g_updir), fd_base = count_fds(g_updir);   // what earlier requests may have left is theirs
			std::string blob;
			{
				std::ostringstream cl; cl << declared;
				char const *kv[][2] = { {"CONTENT_LENGTH", 0}, {"SCGI", "1"}, {"REQUEST_METHOD", "POST"}, {"SCRIPT_NAME", ""}, {"PATH_INFO", 0},
				                        {"QUERY_STRING", 0}, {"CONTENT_TYPE", 0}, {"HTTP_HOST", "localhost"} };
				for (size_t i = 0; i < sizeof(kv) / sizeof(kv[0]); i++) {
					std::string val = kv[i][1] ? std::string(kv[i][1]) : (i == 0 ? cl.str() : i == 4 ? std::string(gq ? "/g" : "/u") : i == 5 ? q : ct);
					blob += kv[i][0]; blob += '\0'; blob += val; blob += '\0';
				}
			}
			std::ostringstream hdr; hdr << blob.size() << ":" << blob << ",";
			client c;
			std::ostringstream out;
			if (!c.open()) { std::cout << "rq CONNECT-FAILED" << std::endl; continue; }
			c.send_all(hdr.str());
			c.wait_consumed();
			std::vector<size_t> ends = parse_cuts(v[8], body.size());
			size_t off = 0; bool alive = true;
			for (size_t i = 0; i < ends.size() && alive; i++) {
				if (ends[i] > off) { alive = c.send_all(body.substr(off, ends[i] - off)); c.wait_consumed(); }
				off = ends[i];
			}
			if ((long long)body.size() < declared) shutdown(c.fd, SHUT_WR);
			bool timeout;
			std::string resp = c.read_all(timeout);
			c.closefd();
			for (int i = 0; i < 200000 && g_live > 0; i++) usleep(100);
			// the request object (parser, files) goes away right after the context-specific data: give it a moment
			int left = count_dir(g_updir) - dir_base;
			int fd_left = count_fds(g_updir) - fd_base, left3 = 0, fd3 = 0;
			std::string perm_hex = "NO-FILE";
			static bool leaked_before = false;    // after a first leak the check fails anyway: do not wait 5 s in every later case
			if (!rf) {
				for (int i = 0; i < (leaked_before ? 2000 : 50000) && (left > 0 || fd_left > 0); i++) {
					usleep(100); left = count_dir(g_updir) - dir_base; fd_left = count_fds(g_updir) - fd_base;
				}
			}
			else {
				// the application may have kept references or made files permanent: wait until the counts have been stable for
				// 50 ms (the request is destroyed a few instructions after the context-specific object)
				int stable = 0;
				for (int i = 0; i < 100000 && stable < 500; i++) {
					usleep(100);
					int l2 = count_dir(g_updir) - dir_base, f2 = count_fds(g_updir) - fd_base;
					if (l2 == left && f2 == fd_left) stable++; else { stable = 0; left = l2; fd_left = f2; }
				}
				left3 = left; fd3 = fd_left;
				g_kept.clear();          // the application drops the references it kept
				left = count_dir(g_updir) - dir_base; fd_left = count_fds(g_updir) - fd_base;
			}
			if (left > 0 || fd_left > 0) leaked_before = true;
			if (rf && count_dir(g_updir) > 0) {
				// files the application made permanent stay: each must hold the complete content of one uploaded file
				std::vector<std::string> datas; { std::lock_guard<std::mutex> g(g_mx); datas = g_datas; }
				bool unread = std::find(datas.begin(), datas.end(), std::string("@PERM@")) != datas.end();
				int nleft = 0;
				DIR *dd = opendir(g_updir.c_str());
				while (struct dirent *e = readdir(dd)) {
					if (e->d_name[0] == '.') continue;
					std::string c = read_whole(g_updir + "/" + e->d_name);
					nleft++;
					if (unread) perm_hex = (nleft == 1) ? hex(c) : std::string("SEVERAL-FILES");
					else if (std::find(datas.begin(), datas.end(), c) == datas.end()) flag("PERMANENT-FILE-CONTENT-DIFFERS");
				}
				closedir(dd);
			}
			if (count_dir(g_updir) > 0) { std::string cmd = "rm -f '" + g_updir + "'/*"; if (system(cmd.c_str())) {} }
			std::string status = "none";
			if (!resp.empty()) {
				status = "200";
				size_t he = resp.find("\r\n\r\n");
				std::string head = resp.substr(0, he == std::string::npos ? resp.size() : he + 2);
				size_t p = head.find("Status: ");
				if (p != std::string::npos && (p == 0 || head[p - 1] == '\n')) status = head.substr(p + 8, 3);
				if (he == std::string::npos) status = "bad-response";
			}
			req_log L;
			{ std::lock_guard<std::mutex> g(g_mx); L = g_log; }
			if (gq) {
				req_log Lg; { std::lock_guard<std::mutex> g(g_mx); Lg = g_log; }
				std::cout << "gq " << status << " " << (status == "200" ? (Lg.dump.empty() ? std::string("NO-DUMP") : Lg.dump) : std::string("G 0")) << std::endl;
				continue;
			}
			out << (rf ? "rf " : "rq ") << status << " ";
			{ size_t pp = L.dump.find("@PERM@"); if (pp != std::string::npos) L.dump.replace(pp, 6, perm_hex); }
			if (status == "200") out << (L.dump.empty() ? std::string("NO-DUMP") : L.dump); else out << "P 0 F 0";
			out << " L new=" << L.n_new << " ready=" << L.readyd.size();
			for (size_t i = 0; i < L.readyd.size(); i++) out << (i ? ";" : ":") << L.readyd[i];
			out << " end=" << L.n_end << " err=" << L.n_err << " raw=" << hex(L.raw);
			out << " tmp=" << (status == "200" ? L.tmp_main : 0) << "," << left;
			out << " fd=" << (status == "200" ? L.fd_main : 0) << "," << fd_left;
			if (mode.size() == 4 && mode[0] == 'R') out << (status == "200" ? (g_hand.empty() ? std::string(" hand=?") : g_hand) : std::string(" hand=0"));
			if (rf) out << " R " << (status == "200" ? L.fd_acts : 0) << "," << (status == "200" ? L.tmp_acts : 0) << ";" << fd3 << "," << left3;
			if (status != "200" && L.n_main2) out << " APP-RAN-ON-REFUSED-REQUEST";
			if (status == "200" && L.n_main2 != 1) out << " APP-RAN-" << L.n_main2 << "-TIMES";
			if (timeout) out << " TIMEOUT";
			if (g_live > 0) out << " REQUEST-NOT-DESTROYED";
			std::sort(L.flags.begin(), L.flags.end());
			L.flags.erase(std::unique(L.flags.begin(), L.flags.end()), L.flags.end());
			for (size_t i = 0; i < L.flags.size(); i++) out << " " << L.flags[i];
			std::cout << out.str() << std::endl;
			if (timeout) {
				// no answer within 30 s: the server thread is stuck; do not make every following case wait as well
				std::cout << "HARNESS-SERVER-HUNG" << std::endl;
				_exit(4);
			}
		}
		srv.shutdown();
		th.join();
	}
	catch (std::exception const &e) {
		std::cout << "HARNESS-EXCEPTION " << e.what() << std::endl;
		rc = 2;
	}
	std::string cmd = "rm -rf '" + g_dir + "'";
	if (system(cmd.c_str())) {}
	return rc;
}
