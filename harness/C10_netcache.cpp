// C10 correspondence harness: real tcp_cache_service instances on loopback (in-process), real cache_over_ip clients
// (tcp_cache_factory) with or without an L1 mem_cache, virtual clock, one history per input line.
//
// case lines
//   H <nservers> <l1flags e.g. 101> <op> <op> ...
//       S:c:key:val:dl:trigs   store by client c (trigs: "_" = empty set, else comma separated hex names, "-" = empty name)
//       F:c:key                fetch with trigger set requested;  G:c:key  fetch with tags==NULL
//       R:c:trig   C:c   X:c (stats)   E:c:key (l1->remove(key): simulated eviction)   T:n (advance the clock)
//       W:s:hdr:payload        raw frame from a foreign peer to server s (prints the reply frame)
//     answer: "H" followed by one token per F/G/X/W op. For F/G the token also contains what a direct fetch on
//     every server's own cache object returns at that moment (the ground truth of the property).
//   P <kind> ...               one tcp_cache (client codec) call against a capturing fake server that answers
//                              with the frame given in the case: prints the request bytes and the decoded answer
#include "cache_storage.h"
#include "tcp_cache_server.h"
#include "cache_over_ip.h"
#include "base_cache.h"
#include "tcp_cache_client.h"
#include "tcp_cache_protocol.h"
#include <cppcms/session_storage.h>
#include <booster/shared_ptr.h>
#include <atomic>
#include <thread>
#include <memory>
#include <string.h>
#include <stdlib.h>
#include <unistd.h>
#include <sys/socket.h>
#include <netinet/in.h>
#include <netinet/tcp.h>
#include <arpa/inet.h>
#include "hexio.h"
using namespace hx;
using cppcms::impl::base_cache;
typedef booster::intrusive_ptr<base_cache> cache_ptr;

#include <dlfcn.h>
static std::atomic<long> g_now(1000);
extern "C" time_t time(time_t *t) { time_t v=g_now.load(); if(t) *t=v; return v; }
// every TCP socket of this process (also the ones booster::aio opens inside the library) is closed with a reset instead of
// the FIN handshake: thousands of short-lived loopback connections per second would otherwise pile up in TIME_WAIT and
// exhaust the ephemeral port range for everybody on this machine. All exchanges are synchronous request/answer pairs, so
// nothing is in flight when a socket is closed.
extern "C" int socket(int domain,int type,int protocol)
{
	typedef int (*fn)(int,int,int);
	static fn real=(fn)dlsym(RTLD_NEXT,"socket");
	int fd=real(domain,type,protocol);
	if(fd>=0 && domain==AF_INET && (type & 0xf)==SOCK_STREAM) {
		struct linger l; l.l_onoff=1; l.l_linger=0;
		setsockopt(fd,SOL_SOCKET,SO_LINGER,&l,sizeof(l));
	}
	return fd;
}

static std::vector<std::string> splitc(std::string const &s,char sep)
{
	std::vector<std::string> r; size_t p=0;
	for(;;) { size_t q=s.find(sep,p); if(q==std::string::npos) { r.push_back(s.substr(p)); break; } r.push_back(s.substr(p,q-p)); p=q+1; }
	return r;
}
static std::set<std::string> parse_trigs(std::string const &s)
{
	std::set<std::string> r;
	if(s=="_") return r;
	std::vector<std::string> v=splitc(s,',');
	for(size_t i=0;i<v.size();i++) r.insert(unhex(v[i]));
	return r;
}
static std::string show_trigs(std::set<std::string> const &t)
{
	if(t.empty()) return "_";
	std::string r;
	for(std::set<std::string>::const_iterator p=t.begin();p!=t.end();++p) { if(p!=t.begin()) r+=","; r+=hex(*p); }
	return r;
}
static int free_port()
{
	int fd=socket(AF_INET,SOCK_STREAM,0);
	sockaddr_in a; memset(&a,0,sizeof(a)); a.sin_family=AF_INET; a.sin_addr.s_addr=htonl(INADDR_LOOPBACK); a.sin_port=0;
	bind(fd,(sockaddr*)&a,sizeof(a));
	socklen_t l=sizeof(a); getsockname(fd,(sockaddr*)&a,&l);
	close(fd);
	return ntohs(a.sin_port);
}
static bool write_all(int fd,char const *p,size_t n) { while(n>0) { ssize_t k=::send(fd,p,n,MSG_NOSIGNAL); if(k<=0) return false; p+=k; n-=k; } return true; }
static bool read_all(int fd,char *p,size_t n) { while(n>0) { ssize_t k=::recv(fd,p,n,0); if(k<=0) return false; p+=k; n-=k; } return true; }
static int connect_to(int port)
{
	int fd=socket(AF_INET,SOCK_STREAM,0);
	sockaddr_in a; memset(&a,0,sizeof(a)); a.sin_family=AF_INET; a.sin_addr.s_addr=htonl(INADDR_LOOPBACK); a.sin_port=htons(port);
	if(connect(fd,(sockaddr*)&a,sizeof(a))!=0) { close(fd); return -1; }
	int one=1; setsockopt(fd,IPPROTO_TCP,TCP_NODELAY,&one,sizeof(one));
	return fd;
}
static unsigned rd32(std::string const &h,size_t off) { unsigned v; memcpy(&v,h.data()+off,4); return v; }

struct node {
	cache_ptr store;                                        // the server's own cache object
	std::unique_ptr<cppcms::impl::tcp_cache_service> srv;
	int port;
	int rawfd;
	node() : port(0), rawfd(-1) {}
	~node() { if(rawfd>=0) close(rawfd); srv.reset(); }
};

static std::string direct(cache_ptr c,std::string const &key)
{
	std::string a; std::set<std::string> t; time_t dl=0; uint64_t gen=0;
	if(!c->fetch(key,&a,&t,&dl,&gen)) return "0";
	std::ostringstream o; o<<"1."<<hex(a)<<"."<<(long long)dl<<"."<<show_trigs(t)<<"."<<(unsigned long long)gen;
	return o.str();
}

static std::string run_history(std::vector<std::string> const &v)
{
	typedef booster::shared_ptr<cppcms::sessions::session_storage_factory> sfact;
	g_now=1000;
	int ns=atoi(v[1].c_str());
	std::string flags=v[2];
	std::vector<std::unique_ptr<node> > nodes;
	std::vector<std::string> ips; std::vector<int> ports;
	for(int i=0;i<ns;i++) {
		std::unique_ptr<node> n(new node());
		n->store=cppcms::impl::thread_cache_factory(0);
		for(int attempt=0;attempt<50 && !n->srv.get();attempt++) {
			n->port=free_port();
			try { n->srv.reset(new cppcms::impl::tcp_cache_service(n->store,sfact(),1,"127.0.0.1",n->port)); }
			catch(std::exception const &) {}
		}
		if(!n->srv.get()) return "H SETUP-FAILED";
		ips.push_back("127.0.0.1"); ports.push_back(n->port);
		nodes.push_back(std::move(n));
	}
	std::vector<cache_ptr> l1s,clients;
	for(size_t c=0;c<flags.size();c++) {
		cache_ptr l1; if(flags[c]=='1') l1=cppcms::impl::thread_cache_factory(0);
		l1s.push_back(l1);
		clients.push_back(cppcms::impl::tcp_cache_factory(ips,ports,l1));
	}
	std::ostringstream out; out<<"H";
	for(size_t i=3;i<v.size();i++) {
		std::vector<std::string> f=splitc(v[i],':');
		std::string const &op=f[0];
		if(op=="T") { g_now+=atol(f[1].c_str()); continue; }
		size_t c=atoi(f[1].c_str());
		if(op=="W") {
			if(c>=nodes.size()) return "H BAD-CASE";
			node &n=*nodes[c];
			if(n.rawfd<0) n.rawfd=connect_to(n.port);
			std::string h=unhex(f[2]),p=unhex(f[3]);
			if(h.size()!=40 || rd32(h,4)!=p.size()) return "H BAD-CASE";
			std::string frame=h+p;
			char rh[40];
			if(!write_all(n.rawfd,frame.data(),frame.size()) || !read_all(n.rawfd,rh,40)) return "H RAW-IO-FAILED";
			std::string rhs(rh,40),rp(rd32(rhs,4),'\0');
			if(!rp.empty() && !read_all(n.rawfd,&rp[0],rp.size())) return "H RAW-IO-FAILED";
			out<<" w="<<hex(rhs)<<"."<<hex(rp);
			continue;
		}
		if(c>=clients.size()) return "H BAD-CASE";
		if(op=="S") {
			clients[c]->store(unhex(f[2]),unhex(f[3]),parse_trigs(f[5]),(time_t)atoll(f[4].c_str()));
		}
		else if(op=="F" || op=="G") {
			std::string key=unhex(f[2]),a; std::set<std::string> t; time_t dl=0;
			bool r=clients[c]->fetch(key,&a,op=="F" ? &t : 0,&dl,0);
			out<<(op=="F" ? " f=" : " g=");
			if(!r) out<<"0";
			else { out<<"1."<<hex(a)<<"."<<(long long)dl; if(op=="F") out<<"."<<show_trigs(t); }
			for(size_t s=0;s<nodes.size();s++) out<<"|"<<direct(nodes[s]->store,key);
		}
		else if(op=="R") clients[c]->rise(unhex(f[2]));
		else if(op=="C") clients[c]->clear();
		else if(op=="E") { if(l1s[c].get()) l1s[c]->remove(unhex(f[2])); }
		else if(op=="X") { unsigned k=0,t=0; clients[c]->stats(k,t); out<<" x="<<k<<"."<<t; }
		else return "H BAD-CASE";
	}
	clients.clear();
	l1s.clear();
	nodes.clear();
	return out.str();
}

// ---- client codec probe: capturing fake server ----
struct fake_server {
	int lfd,port;
	fake_server() {
		lfd=socket(AF_INET,SOCK_STREAM,0);
		sockaddr_in a; memset(&a,0,sizeof(a)); a.sin_family=AF_INET; a.sin_addr.s_addr=htonl(INADDR_LOOPBACK); a.sin_port=0;
		bind(lfd,(sockaddr*)&a,sizeof(a)); listen(lfd,8);
		socklen_t l=sizeof(a); getsockname(lfd,(sockaddr*)&a,&l); port=ntohs(a.sin_port);
	}
	// serve one connection: for every request frame record it and answer with `reply`
	void serve(std::string reply,std::string *captured) {
		int fd=accept(lfd,0,0);
		if(fd<0) return;
		int one=1; setsockopt(fd,IPPROTO_TCP,TCP_NODELAY,&one,sizeof(one));
		for(;;) {
			char h[40];
			if(!read_all(fd,h,40)) break;
			std::string hs(h,40),p(rd32(hs,4),'\0');
			if(!p.empty() && !read_all(fd,&p[0],p.size())) break;
			if(!captured->empty()) *captured+=" ";
			*captured+=hex(hs)+"."+hex(p);
			if(!write_all(fd,reply.data(),reply.size())) break;
		}
		close(fd);
	}
};

static std::string run_probe(std::vector<std::string> const &v,fake_server &fs)
{
	// P F key gen tags tif rhdr rpayload | P S key val dl trigs rhdr rpayload | P R trig rhdr rp | P C rhdr rp | P X rhdr rp
	std::string kind=v[1];
	std::string rh=unhex(v[v.size()-2]),rp=unhex(v[v.size()-1]);
	if(rh.size()!=40 || rd32(rh,4)!=rp.size()) return "P BAD-CASE";
	std::string captured,res;
	std::thread th(&fake_server::serve,&fs,rh+rp,&captured);
	{
		std::vector<std::string> ips(1,"127.0.0.1"); std::vector<int> ports(1,fs.port);
		cppcms::impl::tcp_cache tc(ips,ports);
		if(kind=="F") {
			std::string a="stale"; std::set<std::string> t; time_t dl=-7; uint64_t gen=strtoull(v[3].c_str(),0,10);
			int r=tc.fetch(unhex(v[2]),a,v[4]=="1" ? &t : 0,dl,gen,v[5]=="1");
			std::ostringstream o; o<<"r="<<r;
			if(r==cppcms::impl::tcp_cache::found) o<<"."<<hex(a)<<"."<<(long long)dl<<"."<<show_trigs(t)<<"."<<(unsigned long long)gen;
			res=o.str();
		}
		else if(kind=="S") { tc.store(unhex(v[2]),unhex(v[3]),parse_trigs(v[5]),(time_t)atoll(v[4].c_str())); res="r"; }
		else if(kind=="R") { tc.rise(unhex(v[2])); res="r"; }
		else if(kind=="C") { tc.clear(); res="r"; }
		else if(kind=="X") { unsigned k=0,t=0; tc.stats(k,t); std::ostringstream o; o<<"r="<<k<<"."<<t; res=o.str(); }
		else res="BAD-CASE";
	}
	th.join();
	return "P "+captured+" "+res;
}

int main()
{
	fake_server fs;
	std::string line;
	while(std::getline(std::cin,line)) {
		std::vector<std::string> v=split(line);
		std::string out;
		try {
			if(v.size()>=3 && v[0]=="H") {
				// booster::thread_specific_ptr keeps its pthread key (and the tcp_cache with its connections) until the
				// calling thread exits: run every history on a thread of its own
				// a history whose sockets could not be set up (loopback connect refused under load) is run again in a fresh world
				for(int attempt=0;attempt<4;attempt++) {
					std::string err;
					std::thread th([&]() { try { out=run_history(v); } catch(std::exception const &e) { err=e.what(); } });
					th.join();
					if(err.empty()) break;
					out="EXCEPTION "+err;
					if(err.find("connect:")!=0) break;
					usleep(20000*(attempt+1));
				}
			}
			else if(v.size()>=4 && v[0]=="P") out=run_probe(v,fs);
			else out="BAD-CASE";
		}
		catch(std::exception const &e) { out=std::string("EXCEPTION ")+e.what(); }
		std::cout<<out<<"\n";
	}
	return 0;
}
