// C01: correspondence harness for cppcms::impl::string_map (private/string_map.h, header only): the open-addressing map
// behind connection::env_ (add while a request is parsed, get for every accessor, begin()/end() for getenv(), clear()
// between kept-alive requests).  Keys and values live in a real string_pool, as in the connection.
// case line:  smap <op> <op> ...
//    a<hexkey>=<hexval>  add      g<hexkey>  get      c  clear (map and pool)      d  dump
// result: one token per g (hex of the value, "-" when the value is empty, "0" for the null pointer) and per d
//    D<size>/<total>[<pos>:<hexkey>,...]   in iteration order (begin()..end());   a loop that does not stop within
//    4*size+8 steps is reported as LOOP (the probe loops of the real class have no bound: they are re-run here with a
//    bound on the same data_ before the real call is made)
#include "string_map.h"
#include "hexio.h"
using namespace hx;
typedef cppcms::impl::string_map map_t;

// would map_t::get(key) stop?  same walk as the real loop, bounded
static bool get_stops(map_t &m, char const *key)
{
	map_t::entry e(key);
	size_t n = m.data_.size();
	size_t pos = e.hash % n;
	for (size_t i = 0; i < 4 * n + 8; i++) {
		if (!(m.data_[pos].key && !(m.data_[pos] == e))) return true;
		pos = (pos + 1) % n;
	}
	return false;
}
// would add() stop?  a free slot must exist in the vector insert() walks (after growth: always)
static bool add_stops(map_t &m)
{
	if (m.total_ * 2 >= m.data_.size()) return true;
	for (size_t i = 0; i < m.data_.size(); i++) if (!m.data_[i].key) return true;
	return false;
}

int main()
{
	std::string line;
	while (std::getline(std::cin, line)) {
		std::vector<std::string> v = split(line);
		cppcms::impl::string_pool pool;
		map_t m;
		std::ostringstream out;
		bool dead = false;
		for (size_t i = 1; i < v.size() && !dead; i++) {
			char k = v[i][0];
			std::string arg = v[i].substr(1);
			if (k == 'c') { m.clear(); pool.clear(); }
			else if (k == 'a') {
				size_t eq = arg.find('=');
				std::string key = unhex(arg.substr(0, eq)), val = unhex(arg.substr(eq + 1));
				if (!add_stops(m)) { out << "LOOP "; dead = true; break; }
				m.add(pool.add(key), pool.add(val));
			}
			else if (k == 'g') {
				std::string key = unhex(arg);
				if (!get_stops(m, key.c_str())) { out << "LOOP "; dead = true; break; }
				char const *r = m.get(key.c_str());
				if (!r) out << "0 ";
				else if (!*r) out << "- ";
				else out << hex(std::string(r)) << " ";
			}
			else if (k == 'd') {
				out << "D" << m.data_.size() << "/" << m.total_ << "[";
				bool first = true;
				size_t guard = 0;
				for (map_t::iterator p = m.begin(), e = m.end(); p != e && guard <= m.data_.size(); ++p, ++guard) {
					if (!first) out << ",";
					first = false;
					out << p.current_ << ":" << hex(std::string(p->key));
				}
				out << "] ";
			}
			else out << "BAD-OP ";
		}
		std::string r = out.str();
		while (!r.empty() && r[r.size() - 1] == ' ') r.erase(r.size() - 1);
		std::cout << (r.empty() ? "=" : r) << std::endl;
	}
	return 0;
}
