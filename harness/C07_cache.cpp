// C07/C08 correspondence + oracle harness: operation sequences against the real cache back ends of the
// current tree:  cppcms::impl::thread_cache_factory(limit)  and  cppcms::impl::process_cache_factory(mem,limit)
// (private/cache_storage.h, exactly as tests/cache_backend_test.cpp builds them), and - mode `ifc` - the same
// through cppcms::cache_interface / cppcms::triggers_recorder over a cppcms::service (no network).
// time() is interposed: the library's calls (through the PLT) read the virtual clock below.
//
// case line:   seq <backend> <limit> <t0> <op> <op> ...
//   backend    t = thread_shared, p<KiB> = process_shared with that much shared memory (runs in a forked child:
//              the shared segment is a process-wide singleton that is never released)
//   op         S:<key>:<value>:<trig+trig..|.>:<deadline>:<gen|->   store
//              F:<key>  fetch     R:<trigger>  rise     D:<key>  remove     C  clear     T:<now>  set the clock
//   strings are hex, `-` is the empty string; a value - and in mode seq a key or trigger name - may be written
//   #<len>x<hex prefix>  (prefix then 'v' bytes up to len)
// answer line: one token per op: <tag><result>:<keys>/<triggers>   (stats() after the op)
//   fetch hit  h:<value>:<sorted triggers>:<deadline>:<generation>:<k>/<t>     miss  m:<k>/<t>
//   values longer than 32 bytes are printed as #<len>.<fnv1a64>
#include "cache_storage.h"
#include "base_cache.h"
#include <cppcms/cache_interface.h>
#include <cppcms/service.h>
#include <cppcms/json.h>
#include <cppcms/http_context.h>
#include <cppcms/http_response.h>
#include "C07_dummy_api.h"
#include <booster/intrusive_ptr.h>
#include <set>
#include <map>
#include <string.h>
#include <stdlib.h>
#include <unistd.h>
#include <signal.h>
#include <sys/wait.h>
#include <time.h>
#include "hexio.h"
using namespace hx;

static volatile time_t vnow = 1000;
static volatile unsigned long time_calls = 0;
extern "C" time_t time(time_t *t) { time_calls++; if(t) *t = vnow; return vnow; }

typedef booster::intrusive_ptr<cppcms::impl::base_cache> cache_ptr;

static std::vector<std::string> splitc(std::string const &s,char sep)
{
	std::vector<std::string> v; std::string cur;
	for(size_t i=0;i<s.size();i++) { if(s[i]==sep) { v.push_back(cur); cur.clear(); } else cur+=s[i]; }
	v.push_back(cur);
	return v;
}
static std::string value_of(std::string const &t)
{
	if(!t.empty() && t[0]=='#') {
		size_t x=t.find('x');
		size_t len=strtoul(t.substr(1,x-1).c_str(),0,10);
		std::string r=unhex(t.substr(x+1));
		if(r.size()<len) r.append(len-r.size(),'v');
		return r;
	}
	return unhex(t);
}
static std::string valtok(std::string const &v)
{
	if(v.size()<=32) return hex(v);
	unsigned long long h=14695981039346656037ULL;
	for(size_t i=0;i<v.size();i++) { h^=(unsigned char)v[i]; h*=1099511628211ULL; }
	char buf[64]; snprintf(buf,sizeof(buf),"#%zu.%016llx",v.size(),h);
	return buf;
}
static std::set<std::string> trigset(std::string const &t)
{
	std::set<std::string> s;
	if(t==".") return s;
	std::vector<std::string> v=splitc(t,'+');
	for(size_t i=0;i<v.size();i++) s.insert(value_of(v[i]));	// a name may be written #<len>x<prefix> like a value
	return s;
}
static std::string trigtok(std::set<std::string> const &s)
{
	if(s.empty()) return ".";
	std::string r;
	for(std::set<std::string>::const_iterator p=s.begin();p!=s.end();++p) { if(p!=s.begin()) r+='+'; r+=hex(*p); }
	return r;
}
static std::string stats_tok(cache_ptr c)
{
	unsigned k=~0u,t=~0u; c->stats(k,t);
	char buf[64]; snprintf(buf,sizeof(buf),"%u/%u",k,t);
	return buf;
}

static std::string run_seq(cache_ptr c,std::vector<std::string> const &v,size_t first)
{
	std::string out;
	for(size_t i=first;i<v.size();i++) {
		std::vector<std::string> f=splitc(v[i],':');
		if(i>first) out+=' ';
		std::string const &o=f[0];
		if(o=="S" && f.size()==6) {
			std::string key=value_of(f[1]),val=value_of(f[2]);
			std::set<std::string> tr=trigset(f[3]);
			time_t dl=strtoll(f[4].c_str(),0,10);
			if(f[5]=="-") c->store(key,val,tr,dl);
			else { cppcms::uint64_t g=strtoull(f[5].c_str(),0,10); c->store(key,val,tr,dl,&g); }
			out+="s:"+stats_tok(c);
		}
		else if(o=="F" && f.size()==2) {
			std::string val; std::set<std::string> tr; time_t dl=-12345; cppcms::uint64_t g=999999;
			bool hit=c->fetch(value_of(f[1]),&val,&tr,&dl,&g);
			// the short form used by cache_interface must agree
			std::string val2; std::set<std::string> tr2;
			bool hit2=c->fetch(value_of(f[1]),val2,&tr2);
			bool hit3=c->fetch(value_of(f[1]),0,0,0,0);
			if(hit!=hit2 || hit!=hit3 || (hit && (val!=val2 || tr!=tr2))) out+="FETCH-FORMS-DIFFER:";
			if(hit) {
				char buf[96]; snprintf(buf,sizeof(buf),":%lld:%llu:",(long long)dl,(unsigned long long)g);
				out+="h:"+valtok(val)+":"+trigtok(tr)+buf+stats_tok(c);
			}
			else out+="m:"+stats_tok(c);
		}
		else if(o=="R" && f.size()==2) { c->rise(value_of(f[1])); out+="r:"+stats_tok(c); }
		else if(o=="D" && f.size()==2) { c->remove(value_of(f[1])); out+="d:"+stats_tok(c); }
		else if(o=="C") { c->clear(); out+="c:"+stats_tok(c); }
		else if(o=="T" && f.size()==2) { vnow=strtoll(f[1].c_str(),0,10); out+="t:"+stats_tok(c); }
		else out+="BAD-OP";
	}
	return out;
}

// run f in a forked child, return its single output line (or a crash marker)
template<typename F>
static std::string in_child(F f)
{
	int fd[2];
	if(pipe(fd)!=0) return "<harness pipe failed>";
	fflush(stdout);
	pid_t pid=fork();
	if(pid<0) return "<harness fork failed>";
	if(pid==0) {
		close(fd[0]);
		signal(SIGSEGV,SIG_DFL); signal(SIGABRT,SIG_DFL); signal(SIGBUS,SIG_DFL); signal(SIGFPE,SIG_DFL); signal(SIGILL,SIG_DFL); signal(SIGALRM,SIG_DFL);
		alarm(60);
		std::string r;
		try { r=f(); }
		catch(std::exception const &e) { r=std::string("<exception ")+e.what()+">"; }
		catch(...) { r="<exception unknown>"; }
		size_t off=0;
		while(off<r.size()) { ssize_t n=write(fd[1],r.data()+off,r.size()-off); if(n<=0) break; off+=n; }
		close(fd[1]);
		_exit(0);
	}
	close(fd[1]);
	std::string r; char buf[65536]; ssize_t n;
	while((n=read(fd[0],buf,sizeof(buf)))>0) r.append(buf,n);
	close(fd[0]);
	int st=0; waitpid(pid,&st,0);
	if(WIFSIGNALED(st)) { char b[64]; snprintf(b,sizeof(b),"<crash signal=%d> ",WTERMSIG(st)); return b+r; }
	if(WIFEXITED(st) && WEXITSTATUS(st)!=0) { char b[64]; snprintf(b,sizeof(b),"<crash exit=%d> ",WEXITSTATUS(st)); return b+r; }
	return r;
}

struct seq_job {
	std::vector<std::string> const *v; size_t kib; unsigned limit;
	std::string operator()() const {
		cache_ptr c=cppcms::impl::process_cache_factory(kib*1024,limit);
		return run_seq(c,*v,4);
	}
};

// fill / clear cycles on the process-shared cache: after every clear() the same fill must fit again.
//   cyc <KiB> <limit> <value size> <stores per cycle> <cycles>  ->  per cycle: keys after fill, hits on read-back
struct cyc_job {
	size_t kib; unsigned limit; size_t vsz; unsigned n,cycles; bool by_remove;
	std::string operator()() const {
		cache_ptr c=cppcms::impl::process_cache_factory(kib*1024,limit);
		std::string out;
		std::set<std::string> none;
		for(unsigned cy=0;cy<cycles;cy++) {
			for(unsigned i=0;i<n;i++) {
				char k[32]; snprintf(k,sizeof(k),"key%u",i);
				std::string val(vsz,char('a'+i%26));
				std::set<std::string> tr; tr.insert("all"); if(i%2) tr.insert("odd");
				c->store(k,val,tr,vnow+100);
			}
			unsigned keys=0,trg=0; c->stats(keys,trg);
			unsigned hits=0,bad=0;
			for(unsigned i=0;i<n;i++) {
				char k[32]; snprintf(k,sizeof(k),"key%u",i);
				std::string val;
				if(c->fetch(k,val,0)) { hits++; if(val!=std::string(vsz,char('a'+i%26))) bad++; }
			}
			char buf[128]; snprintf(buf,sizeof(buf),"%s%u/%u/%u/%u",cy?" ":"",keys,trg,hits,bad);
			out+=buf;
			if(by_remove) {
				for(unsigned i=0;i<n;i++) { char k[32]; snprintf(k,sizeof(k),"key%u",i); c->remove(k); }
			}
			else if(cy%2) c->clear(); else c->rise("all");
			c->stats(keys,trg);
			if(keys!=0 || trg!=0) out+="!nonempty";
		}
		return out;
	}
};

// ---- through cppcms::cache_interface with nested trigger recorders ----
//   ifc <backend> <limit> <t0> <op> ...
//   ops: S:<key>:<value>:<trigs>:<timeout secs|-1>:<notriggers 0|1>   store_frame / store
//        F:<key>:<notriggers>   fetch_frame       A:<trigger>  add_trigger      R:<trigger> rise   C clear   T:<now>
//        ( open a triggers_recorder (nested)       ) detach the innermost one -> prints its set
//        X  reset() (what the framework does between requests: drops the collected page triggers)
//        P:<key>:<timeout>  "store page": store(key,"page",<collected triggers_>) the way store_page does
//                            (store_page itself needs an http::context; add_trigger(key) + store with triggers_ is its body)
struct ifc_job {
	std::vector<std::string> const *v; std::string backend; unsigned limit;
	std::string operator()() const {
		cppcms::json::value cfg;
		if(backend=="t") cfg["cache"]["backend"]="thread_shared";
		else { cfg["cache"]["backend"]="process_shared"; cfg["cache"]["memory"]=atoi(backend.c_str()+1); }
		cfg["cache"]["limit"]=int(limit);
		cfg["service"]["api"]="http"; cfg["service"]["port"]=0; cfg["service"]["worker_threads"]=1;
		cppcms::service srv(cfg);
		cppcms::cache_interface ci(srv);
		std::vector<cppcms::triggers_recorder *> recs;
		std::string out;
		for(size_t i=4;i<v->size();i++) {
			std::vector<std::string> f=splitc((*v)[i],':');
			if(i>4) out+=' ';
			std::string const &o=f[0];
			unsigned k=~0u,t=~0u;
			if(o=="S" && f.size()==6) {
				ci.store_frame(unhex(f[1]),value_of(f[2]),trigset(f[3]),atoi(f[4].c_str()),f[5]=="1");
				out+="s";
			}
			else if(o=="F" && f.size()==3) {
				std::string val;
				if(ci.fetch_frame(unhex(f[1]),val,f[2]=="1")) out+="h:"+valtok(val);
				else out+="m";
			}
			else if(o=="A" && f.size()==2) { ci.add_trigger(unhex(f[1])); out+="a"; }
			else if(o=="R" && f.size()==2) { ci.rise(unhex(f[1])); out+="r"; }
			else if(o=="C") { ci.clear(); out+="c"; }
			else if(o=="X") { ci.reset(); out+="x"; }
			else if(o=="T" && f.size()==2) { vnow=strtoll(f[1].c_str(),0,10); out+="t"; }
			else if(o=="(") { recs.push_back(new cppcms::triggers_recorder(ci)); out+="("; }
			else if(o==")") {
				if(recs.empty()) out+=")none";
				else { std::set<std::string> s=recs.back()->detach(); delete recs.back(); recs.pop_back(); out+=")"+trigtok(s); }
			}
			else out+="BAD-OP";
			ci.stats(k,t);
			char buf[64]; snprintf(buf,sizeof(buf),":%u/%u",k,t); out+=buf;
		}
		for(size_t i=0;i<recs.size();i++) delete recs[i];
		return out;
	}
};

// ---- through the cache_interface of a request context: frames, recorders AND fetch_page / store_page ----
//   ifp <backend> <limit> <t0> <op> ...      ops of ifc, plus
//        N:<gzip 0|1>        next request: new http::context (Accept-Encoding: gzip or none) and its cache_interface
//                            (recorders still attached are destroyed first); the case starts with an implicit N:0
//        G:<key>             fetch_page(key): h:<body> (h:Z when the request is gzip) or m; a hit finishes the response
//        P:<key>:<data>:<secs>   response().out() << data; store_page(key,secs): finishes the response
//        G and P print `skip` and do nothing once the response of the request is finished
struct ifp_job {
	std::vector<std::string> const *v; std::string backend; unsigned limit;
	std::string operator()() const {
		cppcms::json::value cfg;
		if(backend=="t") cfg["cache"]["backend"]="thread_shared";
		else { cfg["cache"]["backend"]="process_shared"; cfg["cache"]["memory"]=atoi(backend.c_str()+1); }
		cfg["cache"]["limit"]=int(limit);
		cfg["service"]["api"]="http"; cfg["service"]["port"]=0; cfg["service"]["worker_threads"]=1;
		cppcms::service srv(cfg);
		std::vector<cppcms::triggers_recorder *> recs;
		booster::shared_ptr<cppcms::http::context> ctx;
		std::string output;
		bool finished=false,gz=false;
		std::string out;
		for(size_t i=3;i<v->size();i++) {
			std::vector<std::string> f;
			if(i==3) { f.push_back("N"); f.push_back("0"); }
			else f=splitc((*v)[i],':');
			std::string const &o=f[0];
			std::string tok;
			if(o=="N" && f.size()==2) {
				for(size_t j=recs.size();j>0;j--) delete recs[j-1];
				recs.clear();
				ctx.reset();
				output.clear();
				gz=(f[1]=="1"); finished=false;
				std::map<std::string,std::string> env;
				env["HTTP_HOST"]="www.example.com"; env["SCRIPT_NAME"]="/foo"; env["PATH_INFO"]="/bar"; env["REQUEST_METHOD"]="GET";
				if(gz) env["HTTP_ACCEPT_ENCODING"]="gzip, deflate";
				booster::shared_ptr<c07_dummy_api> api(new c07_dummy_api(srv,env,output));
				ctx.reset(new cppcms::http::context(api));
				ctx->response().io_mode(cppcms::http::response::normal);
				tok="n";
				if(i==3) continue;
			}
			else {
				cppcms::cache_interface &ci=ctx->cache();
				if(o=="S" && f.size()==6) { ci.store_frame(unhex(f[1]),value_of(f[2]),trigset(f[3]),atoi(f[4].c_str()),f[5]=="1"); tok="s"; }
				else if(o=="F" && f.size()==3) {
					std::string val;
					if(ci.fetch_frame(unhex(f[1]),val,f[2]=="1")) tok="h:"+valtok(val); else tok="m";
				}
				else if(o=="A" && f.size()==2) { ci.add_trigger(unhex(f[1])); tok="a"; }
				else if(o=="R" && f.size()==2) { ci.rise(unhex(f[1])); tok="r"; }
				else if(o=="C") { ci.clear(); tok="c"; }
				else if(o=="X") { ci.reset(); tok="x"; }
				else if(o=="T" && f.size()==2) { vnow=strtoll(f[1].c_str(),0,10); tok="t"; }
				else if(o=="(") { recs.push_back(new cppcms::triggers_recorder(ci)); tok="("; }
				else if(o==")") {
					if(recs.empty()) tok=")none";
					else { std::set<std::string> s=recs.back()->detach(); delete recs.back(); recs.pop_back(); tok=")"+trigtok(s); }
				}
				else if(o=="G" && f.size()==2) {
					if(finished) tok="skip";
					else if(ci.fetch_page(unhex(f[1]))) {
						finished=true;
						ctx->response().finalize();
						size_t from=output.find("\r\n\r\n");
						std::string body = from==std::string::npos ? output : output.substr(from+4);
						tok = gz ? std::string("h:Z") : "h:"+valtok(body);
					}
					else tok="m";
				}
				else if(o=="P" && f.size()==4) {
					if(finished) tok="skip";
					else {
						std::string d=value_of(f[2]);
						ctx->response().out().write(d.c_str(),d.size());
						ci.store_page(unhex(f[1]),atoi(f[3].c_str()));
						finished=true;
						tok="p";
					}
				}
				else tok="BAD-OP";
			}
			unsigned k=~0u,t=~0u;
			ctx->cache().stats(k,t);
			char buf[64]; snprintf(buf,sizeof(buf),":%u/%u",k,t);
			if(!out.empty()) out+=' ';
			out+=tok+buf;
		}
		for(size_t j=recs.size();j>0;j--) delete recs[j-1];
		ctx.reset();
		return out;
	}
};

static bool self_test()
{
	// the library must read OUR clock: every fetch and every store with a limit calls the interposed time().
	// (only the calls are counted here; what the cache does with the value is judged by the oracle, so that a
	// broken deadline comparison is reported with a real failing sequence and not as a harness failure)
	cache_ptr c=cppcms::impl::thread_cache_factory(2);
	std::set<std::string> none; std::string tmp;
	vnow=1000; unsigned long before=time_calls;
	c->store("a","x",none,1000);
	c->fetch("a",tmp,0);
	c->fetch("b",tmp,0);
	bool ok = time_calls>=before+3;
	vnow=1000;
	return ok;
}

// a crash inside the library while a case runs in this process (thread_shared back end): answer the current case
// with a crash marker and stop, so that the failing case itself becomes the replay (the remaining cases of this
// worker are reported as <missing> by the driver and carry no verdict)
static void on_crash(int sig)
{
	char buf[64]; int n=snprintf(buf,sizeof(buf),"<crash signal=%d>\n",sig);
	ssize_t r=write(1,buf,n); (void)r;
	// keep the one-line-per-case protocol: the cases this worker will not run any more are answered <missing>
	// (no verdict), so that the crash marker stays attached to the case that crashed
	int ch;
	while((ch=std::cin.rdbuf()->sbumpc())!=EOF) { if(ch=='\n') { r=write(1,"<missing>\n",10); (void)r; } }
	_exit(3);
}

int main(int argc,char **argv)
{
	signal(SIGSEGV,on_crash); signal(SIGABRT,on_crash); signal(SIGBUS,on_crash); signal(SIGFPE,on_crash); signal(SIGILL,on_crash); signal(SIGALRM,on_crash);
	if(!self_test()) { std::cout<<"<time() interposition does not work>"<<std::endl; return 3; }
	std::string line;
	while(std::getline(std::cin,line)) {
		std::vector<std::string> v=split(line);
		std::string out;
		alarm(60);
		if(v.size()>=4 && (v[0]=="seq" || v[0]=="prs")) {   // prs = seq under memory pressure (same execution, oracle only)
			unsigned limit=strtoul(v[2].c_str(),0,10);
			vnow=strtoll(v[3].c_str(),0,10);
			if(v[1]=="t") {
				cache_ptr c=cppcms::impl::thread_cache_factory(limit);
				out=run_seq(c,v,4);
			}
			else if(v[1][0]=='p') {
				seq_job j; j.v=&v; j.kib=strtoul(v[1].c_str()+1,0,10); j.limit=limit;
				out=in_child(j);
			}
			else out="BAD-CASE";
		}
		else if(v.size()==7 && (v[0]=="cyc" || v[0]=="cycr")) {
			cyc_job j; j.kib=strtoul(v[1].c_str(),0,10); j.limit=strtoul(v[2].c_str(),0,10); j.vsz=strtoul(v[3].c_str(),0,10);
			j.n=strtoul(v[4].c_str(),0,10); j.cycles=strtoul(v[5].c_str(),0,10); j.by_remove=(v[0]=="cycr");
			vnow=strtoll(v[6].c_str(),0,10);
			out=in_child(j);
		}
		else if(v.size()>=4 && v[0]=="ifc") {
			ifc_job j; j.v=&v; j.backend=v[1]; j.limit=strtoul(v[2].c_str(),0,10);
			vnow=strtoll(v[3].c_str(),0,10);
			out=in_child(j);
		}
		else if(v.size()>=4 && v[0]=="ifp") {
			ifp_job j; j.v=&v; j.backend=v[1]; j.limit=strtoul(v[2].c_str(),0,10);
			vnow=strtoll(v[3].c_str(),0,10);
			out=in_child(j);
		}
		else out="BAD-CASE";
		std::cout<<out<<"\n";
		std::cout.flush();
	}
	std::cout.flush();
	return 0;
}
