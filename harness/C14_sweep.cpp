// C14 exhaustive sweep (thorough tier): every byte sequence of length 1..4 through the three decoder entry points
// of the current tree's headers -- cppcms::utf8::next(html=false), cppcms::utf8::next(html=true) and
// booster::locale::utf::utf_traits<char>::decode -- compared with a table-driven reference that is written
// directly from the RFC 3629 section 4 ABNF rows (ranges per position, no width / surrogate arithmetic).
//   sw4 <lead> <second>   all 65536 buffers  lead second * *        (4 bytes available)
//   sw3 <lead>            all 65536 buffers  lead * *               (3 bytes available)
//   sw2 <lead>            all 256 buffers    lead *                 (2 bytes available)
//   sw1 <lead>            the buffer         lead                   (1 byte available)
// On every accepted sequence additionally: utf_traits<char>::decode_valid, cppcms::utf8::encode/width and
// utf_traits<char>::encode/width give back the same code point / the same bytes.
// answer: <op> n=<buffers> acc=<accepted by cppcms> acch=<accepted in html mode> accb=<accepted by booster>
//         sum=<sum of the code points returned by cppcms> mism=<disagreements with the reference> first=<hex|->
#include "utf_iterator.h"
#include <booster/locale/utf.h>
#include <string>
#include <vector>
#include <stdio.h>
#include <stdlib.h>
#include <stdint.h>
#include <string.h>
#include "hexio.h"
using namespace hx;
typedef booster::locale::utf::utf_traits<char> btraits;

struct row { unsigned char lo0,hi0,lo1,hi1; int n; };
static const row rows[9]={
	{0x00,0x7F,0x00,0x00,1},   // UTF8-1
	{0xC2,0xDF,0x80,0xBF,2},   // UTF8-2
	{0xE0,0xE0,0xA0,0xBF,3},   // UTF8-3
	{0xE1,0xEC,0x80,0xBF,3},
	{0xED,0xED,0x80,0x9F,3},
	{0xEE,0xEF,0x80,0xBF,3},
	{0xF0,0xF0,0x90,0xBF,4},   // UTF8-4
	{0xF1,0xF3,0x80,0xBF,4},
	{0xF4,0xF4,0x80,0x8F,4},
};
static const unsigned char lead_mask[5]={0,0x7F,0x1F,0x0F,0x07};

// reference: is a prefix of buf[0..avail) one UTF8-char of the ABNF?  returns its length (0 = no) and value
static inline int ref_decode(unsigned char const *b,int avail,uint32_t &cp)
{
	for(int i=0;i<9;i++) {
		row const &r=rows[i];
		if(b[0]<r.lo0 || b[0]>r.hi0) continue;
		if(r.n>avail) return 0;
		if(r.n>=2 && (b[1]<r.lo1 || b[1]>r.hi1)) return 0;
		for(int k=2;k<r.n;k++) if(b[k]<0x80 || b[k]>0xBF) return 0;
		cp=b[0] & lead_mask[r.n];
		for(int k=1;k<r.n;k++) cp=(cp<<6) | (b[k] & 0x3F);
		return r.n;
	}
	return 0;
}
static inline bool html_safe(uint32_t c)
{
	if(c<0x20) return c==9 || c==10 || c==13;
	if(c==0x7F) return false;
	if(0x80<=c && c<=0x9F) return false;
	return true;
}

struct acc {
	unsigned long n,a,ah,ab,mism; unsigned long long sum; std::string first;
	acc() : n(0),a(0),ah(0),ab(0),mism(0),sum(0) {}
};

// the decoders are run on `blk`, a heap block of exactly `avail` bytes (set up per case line), so that a read
// past the end of the input is an AddressSanitizer error in the ASan build of this file
static char *blk=0;
static inline void one(acc &A,unsigned char const *buf,int avail)
{
	memcpy(blk,buf,avail);
	char const *b=blk,*e=b+avail;
	uint32_t rc=0; int rl=ref_decode(buf,avail,rc);
	bool bad=false;
	char const *p=b; uint32_t c=cppcms::utf8::next(p,e,false,false);
	if(rl) { if(c!=rc || p-b!=rl) bad=true; } else if(c!=cppcms::utf::illegal) bad=true;
	if(c!=cppcms::utf::illegal) { A.a++; A.sum+=c; }
	p=b; c=cppcms::utf8::next(p,e,true,false);
	if(rl && html_safe(rc)) { if(c!=rc || p-b!=rl) bad=true; } else if(c!=cppcms::utf::illegal) bad=true;
	if(c!=cppcms::utf::illegal) A.ah++;
	p=b; c=btraits::decode(p,e);
	if(rl) { if(c!=rc || p-b!=rl) bad=true; }
	else {
		if(c!=booster::locale::utf::illegal && c!=booster::locale::utf::incomplete) bad=true;
		// with four bytes available nothing is incomplete
		if(avail==4 && c==booster::locale::utf::incomplete) bad=true;
	}
	if(c!=booster::locale::utf::illegal && c!=booster::locale::utf::incomplete) A.ab++;
	if(rl) {
		// on a valid sequence: the unchecked decoder of the support library and both encoders agree with the reference
		p=b; c=btraits::decode_valid(p);
		if(c!=rc || p-b!=rl) bad=true;
		cppcms::utf8::seq s=cppcms::utf8::encode(rc);
		if(int(s.len)!=rl || memcmp(s.c,b,rl)!=0 || cppcms::utf8::width(rc)!=rl) bad=true;
		char tmp[8]; char *te=btraits::encode(rc,tmp);
		if(te-tmp!=rl || memcmp(tmp,b,rl)!=0 || btraits::width(rc)!=rl) bad=true;
	}
	A.n++;
	if(bad) { if(!A.mism) A.first=hex(std::string(b,avail)); A.mism++; }
}

int main()
{
	std::string line;
	char out[256];
	while(std::getline(std::cin,line)) {
		std::vector<std::string> v=split(line);
		acc A;
		unsigned char q[4];
		bool ok=true;
		int need = v.empty() ? 0 : v[0]=="sw4" ? 4 : v[0]=="sw3" ? 3 : v[0]=="sw2" ? 2 : 1;
		free(blk); blk=(char *)malloc(need);
		if(v.size()==3 && v[0]=="sw4") {
			q[0]=strtoul(v[1].c_str(),0,16); q[1]=strtoul(v[2].c_str(),0,16);
			for(int c=0;c<256;c++) for(int d=0;d<256;d++) { q[2]=c; q[3]=d; one(A,q,4); }
		}
		else if(v.size()==2 && v[0]=="sw3") {
			q[0]=strtoul(v[1].c_str(),0,16);
			for(int c=0;c<256;c++) for(int d=0;d<256;d++) { q[1]=c; q[2]=d; one(A,q,3); }
		}
		else if(v.size()==2 && v[0]=="sw2") {
			q[0]=strtoul(v[1].c_str(),0,16);
			for(int c=0;c<256;c++) { q[1]=c; one(A,q,2); }
		}
		else if(v.size()==2 && v[0]=="sw1") {
			q[0]=strtoul(v[1].c_str(),0,16);
			one(A,q,1);
		}
		else ok=false;
		if(!ok) puts("BAD-CASE");
		else {
			snprintf(out,sizeof(out),"%s n=%lu acc=%lu acch=%lu accb=%lu sum=%llu mism=%lu first=%s",v[0].c_str(),A.n,A.a,A.ah,A.ab,A.sum,A.mism,
				A.mism ? A.first.c_str() : "-");
			puts(out);
		}
	}
	return 0;
}
