// C01: correspondence harness for cppcms::impl::string_pool (private/string_map.h, header only): the arena that holds
// the environment strings of a request and is clear()ed between the requests of a kept-alive connection.
// case line:  pool <op> <op> ...     a<n> = alloc(n)   s<n> = add(string of n non-NUL bytes)   c = clear()
// result:     one token per allocation  <page index from the tail>:<offset in page>:<bytes>:<usable bytes of the page>
// (every allocation is written in full: built with -fsanitize=address, an overrun aborts the harness)
#define private public
#include "string_map.h"
#undef private
#include <malloc.h>
#include <stddef.h>
#include "hexio.h"
using namespace hx;
typedef cppcms::impl::string_pool pool_t;

static std::string where(pool_t &p, char *s, size_t n)
{
	std::vector<pool_t::page *> v;
	for (pool_t::page *q = p.pages_; q; q = q->next) v.push_back(q);
	std::ostringstream o;
	for (size_t i = 0; i < v.size(); i++) {
		char *b = v[i]->data;
		size_t usable = malloc_usable_size(v[i]) - offsetof(pool_t::page, data);
		if (s >= b && s <= b + usable) {
			o << (v.size() - 1 - i) << ":" << (s - b) << ":" << n << ":" << usable;
			return o.str();
		}
	}
	return "outside";
}

int main()
{
	std::string line;
	while (std::getline(std::cin, line)) {
		std::vector<std::string> v = split(line);
		pool_t p;
		std::ostringstream out;
		for (size_t i = 1; i < v.size(); i++) {
			char k = v[i][0];
			size_t n = v[i].size() > 1 ? strtoul(v[i].c_str() + 1, 0, 10) : 0;
			if (k == 'c') p.clear();
			else if (k == 'a') { char *s = p.alloc(n); memset(s, 0x5a, n); out << where(p, s, n) << " "; }
			else if (k == 's') { std::string str(n, 'x'); char *s = p.add(str); out << where(p, s, n + 1) << " "; }
			else out << "BAD-OP ";
		}
		std::string r = out.str();
		std::cout << (r.empty() ? "-" : r) << std::endl;
	}
	return 0;
}
