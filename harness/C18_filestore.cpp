// C18 harness: the real cppcms::sessions::session_file_storage on a scratch directory.
//   * write() is interposed: the sequence of write calls of every save is recorded (offset, bytes)
//   * time() is interposed: load / gc see the clock value given in the case
//   * a crashed save is materialised from the *recorded* calls of the real save: sector s of the file holds
//     the state in which p_s bytes of the recorded byte stream had been applied on top of the earlier file
// case line:  F<0|1> N=<name0>,<name1>,... <op> <op> ...
//   S:i:t:hex           complete save          K:i:t:hex:p0,p1,..  crashed save (per-sector progress, - = none)
//   P:i:hex             raw file content       L:i:now  load       G:now  gc        X:i  remove
//   D:i:now:k1,k2,..    load during which the j-th read() call for the DATA (the 4th, 5th, .. read of the load) returns at most k_j bytes
//   H:i:now:k1,k2,..    load during which the j-th read() call (counted from the first: the header fields included) returns at most k_j bytes
//   Y:now:k             gc during which every read() returns at most k bytes (read_timestamp goes through read_all)
//   A:i:now:t:hex       gc at clock `now` with a rendezvous: right after gc's read() of the 8 stamp bytes of session i a second thread is released that
//                       loads session i and saves it with deadline t (in the future); the gc thread waits up to 80 ms for it (with the per-sid lock
//                       held around stamp read and unlink the second thread simply blocks until gc is done with that file); if gc never reads
//                       the stamp (no such file) the second thread runs after gc. Either way session i must be there afterwards.
//   W:i:t:hex:k1,k2,..  complete save during which the j-th write() call accepts at most k_j bytes (0 = everything): short writes
//   T:i:t:n:iters:len   n writer and n reader threads hammer session i (values = one byte repeated, length depends on the byte), then remove and a
//                       final save of "final": T=ok unless some load failed or returned a value no writer wrote
//   U:i:t:n:iters:len   the same with n writer and n reader *processes* (fork; only with F1: the fcntl lock is what excludes them)
//   M:i:now:mb          load with the address space limited to what the process uses now + mb MiB (RLIMIT_AS): M=EXC when load throws std::bad_alloc
//   L and M watch operator new during the real load: a single request larger than max(file length, 4096) bytes is reported as
//   <result>!alloc=<bytes> (the loader must not size a buffer from a field of the file that the file length does not back)
//   V:hexcookie         session_sid::valid_sid                      Q:now:hexcookie  session_sid::load (valid_sid + load + expiry re-check)
// payloads (hex fields of S K W P) may be written @len.seed.flip: byte i = (seed + 31 i + 17 (i>>8) + 101 (i>>16)) & 255, and byte `flip`
//   (if 0 <= flip < len) xored with 0x5a; values longer than 4096 bytes are answered as #len.crc32 instead of hex
// second line kind:  Z len.seed.flip[:n1,n2,..] ...   the class cppcms::impl::crc32_calc of private/crc32.h (what save_to_file and
//   read_from_file use) is fed the pattern buffer in pieces of n1, n2, .. bytes and then the rest: answer = checksum() as 8 hex digits
// answer: one token per op:  <result>{i=len.crc32,...}   (directory summary after the op, crc32 by own bitwise code)
#include "session_posix_file_storage.h"
#include <cppcms/session_storage.h>
#define private public   // session_sid::valid_sid is private; the harness calls the real one
#include <cppcms/session_sid.h>
#undef private
#include <cppcms/session_interface.h>
#include <cppcms/session_pool.h>
#include <cppcms/json.h>
#include <set>
#include <cppcms/cppcms_error.h>
#include <sys/syscall.h>
#include <sys/stat.h>
#include <sys/types.h>
#include <dirent.h>
#include <unistd.h>
#include <fcntl.h>
#include <stdint.h>
#include <stdlib.h>
#include <string.h>
#include <time.h>
#include <ctype.h>
#include <pthread.h>
#include <sys/resource.h>
#include <sys/wait.h>
#include <stdio.h>
#include <algorithm>
#include "hexio.h"
#include <cppcms/config.h>
#include "crc32.h"
using namespace hx;

#include <new>
// every operator new of the process (libcppcms included) comes here; while g_track is set the largest single request is remembered
static volatile bool g_track = false;
static volatile size_t g_maxreq = 0;
static void *c18_alloc(size_t n)
{
	if(g_track && n > g_maxreq) g_maxreq = n;
	void *p = malloc(n ? n : 1);
	if(!p) throw std::bad_alloc();
	return p;
}
void *operator new(size_t n) { return c18_alloc(n); }
void *operator new[](size_t n) { return c18_alloc(n); }
void *operator new(size_t n, std::nothrow_t const &) noexcept { if(g_track && n > g_maxreq) g_maxreq = n; return malloc(n ? n : 1); }
void *operator new[](size_t n, std::nothrow_t const &) noexcept { if(g_track && n > g_maxreq) g_maxreq = n; return malloc(n ? n : 1); }
void operator delete(void *p) noexcept { free(p); }
void operator delete[](void *p) noexcept { free(p); }
void operator delete(void *p, std::nothrow_t const &) noexcept { free(p); }
void operator delete[](void *p, std::nothrow_t const &) noexcept { free(p); }

static time_t g_now = 1000;
extern "C" time_t time(time_t *p) { if(p) *p = g_now; return g_now; }

struct wrec { int fd; uint64_t off; std::string data; };
static bool g_rec = false;
static std::vector<wrec> g_w;
static std::vector<size_t> g_short;     // while recording: how many bytes the successive write() calls accept at most (0 = all)
static size_t g_short_i = 0;
extern "C" ssize_t write(int fd, const void *buf, size_t n)
{
	off_t o = g_rec ? lseek(fd, 0, SEEK_CUR) : 0;
	if(g_rec && g_short_i < g_short.size()) {
		size_t k = g_short[g_short_i++];
		if(k > 0 && k < n) n = k;
	}
	ssize_t r = syscall(SYS_write, fd, buf, n);
	if(g_rec && r > 0) {
		wrec w; w.fd = fd; w.off = o; w.data.assign(static_cast<char const *>(buf), size_t(r));
		g_w.push_back(w);
	}
	return r;
}

// read() is interposed the same way: while g_rd is set, reads number 4, 5, ... of the load are cut to g_rshort[j] bytes
static bool g_rd = false;
static size_t g_rd_skip = 3;     // reads of the load that are not cut (3 = the header fields)
static size_t g_rd_every = 0;    // != 0: every read() is cut to this many bytes
static size_t g_rd_calls = 0;
static std::vector<size_t> g_rshort;
// rendezvous for op A
static volatile bool g_amb_active = false, g_amb_fired = false, g_amb_go = false, g_amb_done = false;
static ino_t g_amb_ino = 0; static dev_t g_amb_dev = 0;
static pthread_mutex_t g_amb_mx = PTHREAD_MUTEX_INITIALIZER;
static pthread_cond_t g_amb_cv = PTHREAD_COND_INITIALIZER;
static void amb_rendezvous(int fd, size_t n, ssize_t got)
{
	if(!g_amb_active || g_amb_fired || n != 8 || got != 8) return;
	struct stat sb;
	if(::fstat(fd, &sb) != 0 || sb.st_ino != g_amb_ino || sb.st_dev != g_amb_dev) return;
	pthread_mutex_lock(&g_amb_mx);
	g_amb_fired = true; g_amb_go = true;
	pthread_cond_broadcast(&g_amb_cv);
	struct timespec ts; clock_gettime(CLOCK_REALTIME, &ts);
	ts.tv_nsec += 80 * 1000000L; if(ts.tv_nsec >= 1000000000L) { ts.tv_sec++; ts.tv_nsec -= 1000000000L; }
	while(!g_amb_done) if(pthread_cond_timedwait(&g_amb_cv, &g_amb_mx, &ts) != 0) break;
	pthread_mutex_unlock(&g_amb_mx);
}
extern "C" ssize_t read(int fd, void *buf, size_t n)
{
	if(g_amb_active) { ssize_t r = syscall(SYS_read, fd, buf, n); amb_rendezvous(fd, n, r); return r; }
	if(g_rd) {
		size_t c = g_rd_calls++;
		if(g_rd_every) { if(g_rd_every < n) n = g_rd_every; }
		else if(c >= g_rd_skip && c - g_rd_skip < g_rshort.size()) {
			size_t k = g_rshort[c - g_rd_skip];
			if(k > 0 && k < n) n = k;
		}
	}
	return syscall(SYS_read, fd, buf, n);
}

static uint32_t crc_own(std::string const &s)
{
	uint32_t c = 0xFFFFFFFFu;
	for(size_t i = 0; i < s.size(); i++) {
		c ^= (unsigned char)s[i];
		for(int k = 0; k < 8; k++) c = (c & 1) ? (c >> 1) ^ 0xEDB88320u : (c >> 1);
	}
	return c ^ 0xFFFFFFFFu;
}
static std::string hex8(uint32_t v) { char b[16]; snprintf(b, sizeof(b), "%08x", v); return b; }
static std::string pattern(long long len, long long seed, long long flip)
{
	std::string r; if(len <= 0) return r;
	r.resize(size_t(len));
	for(long long i = 0; i < len; i++) r[size_t(i)] = char((seed + 31 * i + 17 * (i >> 8) + 101 * (i >> 16)) & 255);
	if(flip >= 0 && flip < len) r[size_t(flip)] = char(r[size_t(flip)] ^ 0x5a);
	return r;
}
static std::string pattern_spec(std::string const &spec)   // len.seed.flip
{
	long long v[3] = { 0, 0, -1 }; int k = 0; size_t pos = 0;
	while(k < 3 && pos <= spec.size()) {
		size_t e = spec.find('.', pos); if(e == std::string::npos) e = spec.size();
		v[k++] = strtoll(spec.substr(pos, e - pos).c_str(), 0, 10);
		pos = e + 1;
	}
	return pattern(v[0], v[1], v[2]);
}
static std::string payload(std::string const &tok) { return (!tok.empty() && tok[0] == '@') ? pattern_spec(tok.substr(1)) : unhex(tok); }
static std::string show(std::string const &d)
{
	if(d.size() <= 4096) return hex(d);
	char b[64]; snprintf(b, sizeof(b), "#%llu.", (unsigned long long)d.size());
	return std::string(b) + hex8(crc_own(d));
}

static bool slurp(std::string const &path, std::string &out)
{
	int fd = ::open(path.c_str(), O_RDONLY);
	if(fd < 0) return false;
	out.clear();
	char buf[65536]; ssize_t r;
	while((r = ::read(fd, buf, sizeof(buf))) > 0) out.append(buf, r);
	::close(fd);
	return true;
}
static void spit(std::string const &path, std::string const &data)
{
	int fd = ::open(path.c_str(), O_WRONLY | O_CREAT | O_TRUNC, 0666);
	if(fd < 0) { perror("spit"); exit(3); }
	size_t done = 0;
	while(done < data.size()) {
		ssize_t r = syscall(SYS_write, fd, data.data() + done, data.size() - done);
		if(r <= 0) { perror("spit write"); exit(3); }
		done += r;
	}
	::close(fd);
}
struct alloc_watch {
	size_t flen;
	explicit alloc_watch(std::string const &path) : flen(0)
	{
		struct stat sb;
		if(::stat(path.c_str(), &sb) == 0) flen = size_t(sb.st_size);
		g_maxreq = 0; g_track = true;
	}
	~alloc_watch() { g_track = false; }
	std::string verdict()
	{
		g_track = false;
		size_t m = g_maxreq, lim = std::max<size_t>(flen, 4096);
		if(m <= lim) return "";
		char b[64]; snprintf(b, sizeof(b), "!alloc=%llu", (unsigned long long)m);
		return b;
	}
};
static void clean_dir(std::string const &dir)
{
	DIR *d = opendir(dir.c_str());
	if(!d) return;
	struct dirent *e;
	std::vector<std::string> names;
	while((e = readdir(d)) != 0) { std::string n = e->d_name; if(n != "." && n != "..") names.push_back(n); }
	closedir(d);
	for(size_t i = 0; i < names.size(); i++) ::unlink((dir + "/" + names[i]).c_str());
}

// the crash state: see header comment
static std::string materialise(std::string const &F, std::vector<wrec> const &W, std::vector<uint64_t> const &ps)
{
	std::vector<std::pair<uint64_t, unsigned char> > st;
	for(size_t i = 0; i < W.size(); i++)
		for(size_t j = 0; j < W[i].data.size(); j++)
			st.push_back(std::make_pair(W[i].off + j, (unsigned char)W[i].data[j]));
	std::string res = F;
	for(size_t s = 0; s < ps.size(); s++) {
		uint64_t p = std::min<uint64_t>(ps[s], st.size());
		if(p == 0) continue;
		std::string cur = F;
		for(uint64_t k = 0; k < p; k++) {
			if(st[k].first >= cur.size()) cur.resize(st[k].first + 1, 0);
			cur[st[k].first] = char(st[k].second);
		}
		uint64_t lo = 512 * s, hi = std::min<uint64_t>(cur.size(), 512 * (s + 1));
		if(lo < hi) {
			if(res.size() < hi) res.resize(hi, 0);
			std::copy(cur.begin() + lo, cur.begin() + hi, res.begin() + lo);
		}
	}
	return res;
}

// sid_to_pos() reads an unsigned with sscanf("%x") from the first 4 characters and leaves it uninitialised when they are not hex
// digits; session_sid::valid_sid lets only 32 lower-case hex digits through, so the storage API is called with well-formed names only
static bool valid32(std::string const &n)
{
	if(n.size() != 32) return false;
	for(size_t i = 0; i < 32; i++) if(!isxdigit((unsigned char)n[i])) return false;
	return true;
}

static std::vector<std::string> splitc(std::string const &s, char c)
{
	std::vector<std::string> r; std::string cur;
	for(size_t i = 0; i < s.size(); i++) { if(s[i] == c) { r.push_back(cur); cur.clear(); } else cur += s[i]; }
	r.push_back(cur);
	return r;
}

// session_sid::load takes the cookie from a session_interface: a cookie jar that answers with the cookie of the case
class jar : public cppcms::session_interface_cookie_adapter {
public:
	std::string value;
	virtual void set_cookie(cppcms::http::cookie const &) {}
	virtual std::string get_session_cookie(std::string const &) { return value; }
	virtual std::set<std::string> get_cookie_names() { return std::set<std::string>(); }
};

struct aarg { cppcms::sessions::session_storage *st; std::string sid; time_t t; std::string data; };
static void *amb_helper(void *p)
{
	aarg *a = static_cast<aarg *>(p);
	pthread_mutex_lock(&g_amb_mx);
	while(!g_amb_go) pthread_cond_wait(&g_amb_cv, &g_amb_mx);
	pthread_mutex_unlock(&g_amb_mx);
	try { time_t tt = 0; std::string d; a->st->load(a->sid, tt, d); a->st->save(a->sid, a->t, a->data); } catch(...) {}
	pthread_mutex_lock(&g_amb_mx);
	g_amb_done = true;
	pthread_cond_broadcast(&g_amb_cv);
	pthread_mutex_unlock(&g_amb_mx);
	return 0;
}
struct targ { cppcms::sessions::session_storage *st; std::string sid; time_t t; int k, iters, len; long bad_none, bad_mixed; };
static std::string tval(int k, int len) { return std::string(size_t(len + 37 * k), char('A' + k)); }
static void *t_writer(void *p)
{
	targ *a = static_cast<targ *>(p);
	std::string v = tval(a->k, a->len);
	for(int i = 0; i < a->iters; i++) a->st->save(a->sid, a->t, v);
	return 0;
}
static void *t_reader(void *p)
{
	targ *a = static_cast<targ *>(p);
	for(int i = 0; i < a->iters; i++) {
		time_t t = 0; std::string d;
		if(!a->st->load(a->sid, t, d)) { a->bad_none++; continue; }
		bool ok = t == a->t && !d.empty();
		for(size_t j = 1; ok && j < d.size(); j++) if(d[j] != d[0]) ok = false;
		if(ok) { int k = d[0] - 'A'; ok = k >= 0 && k < 26 && d.size() == size_t(a->len + 37 * k); }
		if(!ok) a->bad_mixed++;
	}
	return 0;
}

int main()
{
	char const *base = getenv("C18_DIR");
	std::string tmpl = std::string(base ? base : "/tmp") + "/c18.XXXXXX";
	std::vector<char> tb(tmpl.begin(), tmpl.end()); tb.push_back(0);
	if(!mkdtemp(&tb[0])) { perror("mkdtemp"); return 2; }
	std::string dir = &tb[0];
	// session_interface wants a pool with some backend before it hands out its cookie; this one lives in a directory of its own and is never used
	cppcms::json::value cfg;
	cfg["session"]["location"] = "server";
	cfg["session"]["expire"] = "renew";
	cfg["session"]["timeout"] = 1000;
	cfg["session"]["server"]["storage"] = "files";
	cfg["session"]["server"]["dir"] = dir + ".pool";
	cppcms::session_pool pool(cfg);
	pool.init();
	std::string line;
	while(std::getline(std::cin, line)) {
		std::vector<std::string> v = split(line);
		std::ostringstream out;
		if(!v.empty() && v[0] == "Z") {
			for(size_t k = 1; k < v.size(); k++) {
				std::vector<std::string> a = splitc(v[k], ':');
				std::string buf = pattern_spec(a[0]);
				cppcms::impl::crc32_calc calc;
				size_t pos = 0;
				if(a.size() > 1) {
					std::vector<std::string> ns = splitc(a[1], ',');
					for(size_t j = 0; j < ns.size(); j++) {
						size_t n = std::min<size_t>(strtoull(ns[j].c_str(), 0, 10), buf.size() - pos);
						calc.process_bytes(buf.data() + pos, n);
						pos += n;
					}
				}
				calc.process_bytes(buf.data() + pos, buf.size() - pos);
				out << (k > 1 ? " " : "") << hex8(calc.checksum());
			}
			std::cout << out.str() << "\n";
			continue;
		}
		if(v.size() < 2 || v[0].size() != 2 || v[0][0] != 'F' || v[1].compare(0, 2, "N=") != 0) { std::cout << "BAD-CASE\n"; continue; }
		bool flock = v[0][1] == '1';
		std::vector<std::string> names = splitc(v[1].substr(2), ',');
		clean_dir(dir);
		cppcms::sessions::session_file_storage_factory fact(dir, 5, 1, flock);
		booster::shared_ptr<cppcms::sessions::session_storage> st = fact.get();
		for(size_t k = 2; k < v.size(); k++) {
			std::vector<std::string> a = splitc(v[k], ':');
			if(k > 2) out << ' ';
			try {
				char op = a[0].size() == 1 ? a[0][0] : '?';
				if((op == 'S' && a.size() == 4) || (op == 'K' && a.size() == 5) || (op == 'W' && a.size() == 5)) {
					size_t i = atoi(a[1].c_str()); if(i >= names.size() || !valid32(names[i])) throw 1;
					std::string path = dir + "/" + names[i];
					time_t t = (time_t)strtoll(a[2].c_str(), 0, 10);
					std::string d = payload(a[3]);
					std::string F; bool had = slurp(path, F); if(!had) F.clear();
					g_short.clear(); g_short_i = 0;
					if(op == 'W' && a[4] != "-") { std::vector<std::string> kv = splitc(a[4], ','); for(size_t j = 0; j < kv.size(); j++) g_short.push_back(strtoull(kv[j].c_str(), 0, 10)); }
					g_w.clear(); g_rec = true;
					try { st->save(names[i], t, d); } catch(...) { g_rec = false; g_short.clear(); throw; }
					g_rec = false; g_short.clear();
					out << op << '[';
					for(size_t j = 0; j < g_w.size(); j++)
						out << (j ? "," : "") << g_w[j].off << '+' << g_w[j].data.size() << '+' << hex8(crc_own(g_w[j].data));
					out << ']';
					{
						// the crash-state construction itself is checked against the real save: with every sector fully
						// written it must reproduce the file the real save left behind
						uint64_t tot = 0; for(size_t j = 0; j < g_w.size(); j++) tot += g_w[j].data.size();
						std::string after; slurp(path, after);
						std::vector<uint64_t> full((std::max<size_t>(after.size(), F.size()) + 511) / 512 + 1, tot);
						if(materialise(F, g_w, full) != after) out << "MATERIALISE-MISMATCH";
					}
					if(op == 'K') {
						std::vector<uint64_t> ps;
						if(a[4] != "-") { std::vector<std::string> pv = splitc(a[4], ','); for(size_t j = 0; j < pv.size(); j++) ps.push_back(strtoull(pv[j].c_str(), 0, 10)); }
						spit(path, materialise(F, g_w, ps));
					}
				}
				else if(op == 'P' && a.size() == 3) {
					size_t i = atoi(a[1].c_str()); if(i >= names.size()) throw 1;
					spit(dir + "/" + names[i], payload(a[2]));
					out << 'P';
				}
				else if(op == 'L' && a.size() == 3) {
					size_t i = atoi(a[1].c_str()); if(i >= names.size() || !valid32(names[i])) throw 1;
					g_now = (time_t)strtoll(a[2].c_str(), 0, 10);
					time_t t = 0; std::string d = "stale";
					alloc_watch aw(dir + "/" + names[i]);
					bool ok = st->load(names[i], t, d);
					std::string av = aw.verdict();
					if(ok) out << "L=" << (long long)t << '.' << show(d);
					else out << "L=none";
					out << av;
				}
				else if(op == 'A' && a.size() == 5) {
					size_t i = atoi(a[1].c_str()); if(i >= names.size() || !valid32(names[i])) throw 1;
					g_now = (time_t)strtoll(a[2].c_str(), 0, 10);
					aarg x = { st.get(), names[i], (time_t)strtoll(a[3].c_str(), 0, 10), payload(a[4]) };
					struct stat sb; g_amb_ino = 0; g_amb_dev = 0;
					if(::stat((dir + "/" + names[i]).c_str(), &sb) == 0) { g_amb_ino = sb.st_ino; g_amb_dev = sb.st_dev; }
					g_amb_fired = false; g_amb_go = false; g_amb_done = false;
					pthread_t th; pthread_create(&th, 0, amb_helper, &x);
					g_amb_active = g_amb_ino != 0;
					try { fact.gc_job(); } catch(...) { g_amb_active = false; pthread_mutex_lock(&g_amb_mx); g_amb_go = true; pthread_cond_broadcast(&g_amb_cv); pthread_mutex_unlock(&g_amb_mx); pthread_join(th, 0); throw; }
					g_amb_active = false;
					pthread_mutex_lock(&g_amb_mx); g_amb_go = true; pthread_cond_broadcast(&g_amb_cv); pthread_mutex_unlock(&g_amb_mx);
					pthread_join(th, 0);
					out << 'A' << (g_amb_fired ? "" : "");
				}
				else if(op == 'Y' && a.size() == 3) {
					g_now = (time_t)strtoll(a[1].c_str(), 0, 10);
					g_rd_every = strtoull(a[2].c_str(), 0, 10); if(g_rd_every == 0) throw 1;
					g_rd_calls = 0; g_rd = true;
					try { fact.gc_job(); } catch(...) { g_rd = false; g_rd_every = 0; throw; }
					g_rd = false; g_rd_every = 0;
					out << 'Y';
				}
				else if((op == 'D' || op == 'H') && a.size() == 4) {
					size_t i = atoi(a[1].c_str()); if(i >= names.size() || !valid32(names[i])) throw 1;
					g_now = (time_t)strtoll(a[2].c_str(), 0, 10);
					g_rshort.clear();
					if(a[3] != "-") { std::vector<std::string> kv = splitc(a[3], ','); for(size_t j = 0; j < kv.size(); j++) g_rshort.push_back(strtoull(kv[j].c_str(), 0, 10)); }
					time_t t = 0; std::string d = "stale";
					g_rd_calls = 0; g_rd_skip = (op == 'H') ? 0 : 3; g_rd = true;
					bool ok;
					try { ok = st->load(names[i], t, d); } catch(...) { g_rd = false; throw; }
					g_rd = false;
					if(ok) out << op << '=' << (long long)t << '.' << show(d);
					else out << op << "=none";
				}
				else if(op == 'G' && a.size() == 2) {
					g_now = (time_t)strtoll(a[1].c_str(), 0, 10);
					fact.gc_job();
					out << 'G';
				}
				else if(op == 'M' && a.size() == 4) {
					size_t i = atoi(a[1].c_str()); if(i >= names.size() || !valid32(names[i])) throw 1;
					g_now = (time_t)strtoll(a[2].c_str(), 0, 10);
					unsigned long mb = strtoul(a[3].c_str(), 0, 10);
					unsigned long pages = 0; { FILE *f = fopen("/proc/self/statm", "r"); if(f) { if(fscanf(f, "%lu", &pages) != 1) pages = 0; fclose(f); } }
					struct rlimit old_l, new_l; getrlimit(RLIMIT_AS, &old_l);
					new_l = old_l; new_l.rlim_cur = rlim_t(pages) * rlim_t(sysconf(_SC_PAGESIZE)) + rlim_t(mb) * 1048576u;
					if(pages == 0 || setrlimit(RLIMIT_AS, &new_l) != 0) throw 1;
					time_t t = 0; std::string d = "stale";
					alloc_watch aw(dir + "/" + names[i]);
					try {
						bool ok = st->load(names[i], t, d);
						std::string av = aw.verdict();
						setrlimit(RLIMIT_AS, &old_l);
						if(ok) out << "M=" << (long long)t << '.' << show(d); else out << "M=none";
						out << av;
					}
					catch(std::bad_alloc const &) { setrlimit(RLIMIT_AS, &old_l); out << "M=EXC" << aw.verdict(); }
					catch(...) { aw.verdict(); setrlimit(RLIMIT_AS, &old_l); throw; }
				}
				else if(op == 'T' && a.size() == 6) {
					size_t i = atoi(a[1].c_str()); if(i >= names.size() || !valid32(names[i])) throw 1;
					time_t t = (time_t)strtoll(a[2].c_str(), 0, 10);
					int n = atoi(a[3].c_str()), iters = atoi(a[4].c_str()), len = atoi(a[5].c_str());
					if(n < 1 || n > 8 || iters < 1 || len < 1) throw 1;
					g_now = t > 1000 ? t - 1000 : 0;
					st->save(names[i], t, tval(0, len));
					std::vector<targ> ta(2 * n);
					std::vector<pthread_t> th(2 * n);
					for(int k = 0; k < 2 * n; k++) {
						targ x = { st.get(), names[i], t, k % n, iters, len, 0, 0 };
						ta[k] = x;
						pthread_create(&th[k], 0, k < n ? t_writer : t_reader, &ta[k]);
					}
					long bn = 0, bm = 0;
					for(int k = 0; k < 2 * n; k++) { pthread_join(th[k], 0); bn += ta[k].bad_none; bm += ta[k].bad_mixed; }
					// the bytes behind the last record depend on the interleaving (no truncation): start from a fresh file for a deterministic end state
					st->remove(names[i]);
					st->save(names[i], t, "final");
					if(bn == 0 && bm == 0) out << "T=ok"; else out << "T=bad(none=" << bn << ",mixed=" << bm << ")";
				}
				else if(op == 'U' && a.size() == 6) {
					size_t i = atoi(a[1].c_str()); if(i >= names.size() || !valid32(names[i]) || !flock) throw 1;
					time_t t = (time_t)strtoll(a[2].c_str(), 0, 10);
					int n = atoi(a[3].c_str()), iters = atoi(a[4].c_str()), len = atoi(a[5].c_str());
					if(n < 1 || n > 8 || iters < 1 || len < 1) throw 1;
					g_now = t > 1000 ? t - 1000 : 0;
					st->save(names[i], t, tval(0, len));
					std::vector<pid_t> pids;
					for(int k = 0; k < 2 * n; k++) {
						pid_t pid = fork();
						if(pid < 0) break;
						if(pid == 0) {
							int rc = 2;
							try {
								targ x = { st.get(), names[i], t, k % n, iters, len, 0, 0 };
								if(k < n) t_writer(&x); else t_reader(&x);
								rc = (x.bad_none || x.bad_mixed) ? 1 : 0;
							} catch(...) { rc = 2; }
							_exit(rc);
						}
						pids.push_back(pid);
					}
					int bad = int(2 * n - pids.size());
					for(size_t k = 0; k < pids.size(); k++) { int stt = 0; if(waitpid(pids[k], &stt, 0) < 0 || !WIFEXITED(stt) || WEXITSTATUS(stt) != 0) bad++; }
					st->remove(names[i]);
					st->save(names[i], t, "final");
					if(bad == 0) out << "U=ok"; else out << "U=bad(" << bad << ")";
				}
				else if(op == 'V' && a.size() == 2) {
					cppcms::sessions::session_sid sid(st);
					std::string id = "stale";
					if(sid.valid_sid(unhex(a[1]), id)) out << "V=" << hex(id);
					else out << "V=none";
				}
				else if(op == 'Q' && a.size() == 3) {
					g_now = (time_t)strtoll(a[1].c_str(), 0, 10);
					jar j; j.value = unhex(a[2]);
					cppcms::session_interface si(pool, j);
					cppcms::sessions::session_sid sid(st);
					time_t t = 0; std::string d = "stale";
					if(sid.load(si, d, t)) out << "Q=" << (long long)t << '.' << show(d);
					else out << "Q=none";
				}
				else if(op == 'X' && a.size() == 2) {
					size_t i = atoi(a[1].c_str()); if(i >= names.size() || !valid32(names[i])) throw 1;
					st->remove(names[i]);
					out << 'X';
				}
				else { out << "BAD-OP"; continue; }
			}
			catch(std::exception const &e) { out << "EXC(" << typeid(e).name() << ")"; }
			catch(...) { out << "BAD-OP"; continue; }
			out << '{';
			bool first = true;
			for(size_t i = 0; i < names.size(); i++) {
				std::string c;
				if(slurp(dir + "/" + names[i], c)) { out << (first ? "" : ",") << i << '=' << c.size() << '.' << hex8(crc_own(c)); first = false; }
			}
			out << '}';
		}
		std::cout << out.str() << "\n";
	}
	clean_dir(dir);
	::rmdir(dir.c_str());
	clean_dir(dir + ".pool");
	::rmdir((dir + ".pool").c_str());
	return 0;
}
