"""Common machinery for /verif checks (see DESIGN.md section 2)."""
import os, sys, json, time, subprocess, fcntl, re, hashlib, random, shutil, glob

VERIF = os.path.dirname(os.path.dirname(os.path.abspath(__file__)))
REPO = os.environ.get('VERIF_REPO', '/repo')
WORK = os.path.join(VERIF, '.work')
COQ = os.path.join(VERIF, 'coq')
BUILD = os.path.join(WORK, 'build')
BUILD_ASAN = os.path.join(WORK, 'build-asan')
GUARD = 'CPPCMS_VERIF'
NCPU = os.cpu_count() or 4
# development throttle: when many workers share the machine, .work/throttle holds the number of jobs each tool run may use
for _t in (os.path.join(WORK, 'throttle'), '/tmp/verif-throttle'):
    try:
        NCPU = max(1, min(NCPU, int(open(_t).read().strip())))
    except Exception:
        pass
if os.environ.get('VERIF_JOBS'):
    NCPU = max(1, int(os.environ['VERIF_JOBS']))

sys.path.insert(0, os.path.join(VERIF, 'tools'))


class Lock:
    def __init__(self, name):
        os.makedirs(os.path.join(WORK, 'locks'), exist_ok=True)
        self.path = os.path.join(WORK, 'locks', name)

    def __enter__(self):
        self.f = open(self.path, 'w')
        fcntl.flock(self.f, fcntl.LOCK_EX)
        return self

    def __exit__(self, *a):
        fcntl.flock(self.f, fcntl.LOCK_UN)
        self.f.close()


COQ_MEM_LIMIT = int(os.environ.get('VERIF_COQ_MEM_GB', '20')) << 30   # a proof script that needs more than this is broken


def _limit_as(nbytes):
    def f():
        import resource
        resource.setrlimit(resource.RLIMIT_AS, (nbytes, nbytes))
    return f


def sh(cmd, cwd=None, timeout=None, env=None, inp=None, check=False, mem=None):
    e = dict(os.environ)
    if env:
        e.update(env)
    p = subprocess.run(cmd, cwd=cwd, shell=isinstance(cmd, str), capture_output=True,
                       timeout=timeout, env=e, input=inp, preexec_fn=_limit_as(mem) if mem else None)
    if check and p.returncode != 0:
        raise RuntimeError('command failed: %s\n%s\n%s' % (cmd, p.stdout.decode(errors='replace')[-3000:],
                                                        p.stderr.decode(errors='replace')[-3000:]))
    return p


def write_if_changed(path, txt):
    if os.path.exists(path) and open(path).read() == txt:
        return False
    os.makedirs(os.path.dirname(path), exist_ok=True)
    with open(path, 'w') as f:
        f.write(txt)
    return True


# ----------------------------------------------------------------------------------
# /repo library build (current working tree, hooks on)
# ----------------------------------------------------------------------------------
def build_repo(asan=False):
    d = BUILD_ASAN if asan else BUILD
    flags = '-Wno-error -D' + GUARD
    extra = []
    if asan:
        flags += ' -fsanitize=address,undefined -fno-sanitize-recover=undefined -fno-omit-frame-pointer'
        extra = ['-DCMAKE_SHARED_LINKER_FLAGS=-fsanitize=address,undefined',
                 '-DCMAKE_EXE_LINKER_FLAGS=-fsanitize=address,undefined']
    with Lock('build-asan' if asan else 'build'):
        if not os.path.exists(os.path.join(d, 'build.ninja')):
            p = sh(['cmake', '-G', 'Ninja', '-S', REPO, '-B', d, '-DCMAKE_BUILD_TYPE=RelWithDebInfo',
                    '-DDISABLE_STATIC=ON', '-DCMAKE_CXX_FLAGS=' + flags, '-DCMAKE_C_FLAGS=' + flags] + extra)
            if p.returncode != 0:
                return False, (p.stdout + p.stderr).decode(errors='replace')[-4000:]
        p = sh(['ninja', '-j%d' % NCPU, '-C', d, 'cppcms', 'booster'])
        if p.returncode != 0:
            return False, (p.stdout + p.stderr).decode(errors='replace')[-4000:]
    return True, ''


def cxx_flags(asan=False):
    d = BUILD_ASAN if asan else BUILD
    f = ['-std=c++11', '-g', '-O1', '-w', '-D' + GUARD, '-I' + REPO, '-I' + REPO + '/booster', '-I' + d,
         '-I' + d + '/booster', '-I' + REPO + '/private', '-I' + os.path.join(VERIF, 'harness')]
    if asan:
        f += ['-fsanitize=address,undefined', '-fno-sanitize-recover=undefined', '-fno-omit-frame-pointer']
    return f


def link_flags(asan=False):
    d = BUILD_ASAN if asan else BUILD
    return ['-L' + d, '-L' + d + '/booster', '-Wl,-rpath,' + d, '-Wl,-rpath,' + d + '/booster',
            '-lcppcms', '-lbooster', '-lpthread']


def build_harness(name, sources, asan=False, link=True, extra=(), deps=()):
    """compile harness/<sources> against the current tree. Always recompiles (headers of /repo
    may have changed); cheap (a few seconds)."""
    outdir = os.path.join(WORK, 'bin')
    os.makedirs(outdir, exist_ok=True)
    out = os.path.join(outdir, name + ('-asan' if asan else ''))
    srcs = [s if os.path.isabs(s) else os.path.join(VERIF, 'harness', s) for s in sources]
    cmd = ['g++'] + cxx_flags(asan) + list(extra) + srcs + ['-o', out]
    if link:
        cmd += link_flags(asan)
    else:
        cmd += ['-lpthread']
    with Lock('harness-' + name):
        p = sh(cmd)
    if p.returncode != 0:
        return None, (p.stdout + p.stderr).decode(errors='replace')[-6000:]
    return out, ''


# ----------------------------------------------------------------------------------
# Coq
# ----------------------------------------------------------------------------------
FORBIDDEN = re.compile(r'\b(Admitted|admit|Axiom|Axioms|Parameter|Parameters|Conjecture|Admit Obligations|'
                       r'Unset Guard Checking|Unset Positivity Checking|Unset Universe Checking|bypass_check|'
                       r'type-in-type|impredicative-set)\b')


def coq_project():
    """(re)write coq/_CoqProject from the files on disk and make sure the Makefile exists."""
    files = []
    for root, _, fs in os.walk(COQ):
        for f in fs:
            if f.endswith('.v') and f != 'Extract.v' and not f.startswith('.'):
                files.append(os.path.relpath(os.path.join(root, f), COQ))
    files.sort()
    txt = '-Q . CppcmsV\n-arg -w -arg -notation-overridden,-deprecated,-ambiguous-paths\n' + '\n'.join(files) + '\n'
    changed = write_if_changed(os.path.join(COQ, '_CoqProject'), txt)
    if changed or not os.path.exists(os.path.join(COQ, 'Makefile')):
        sh(['coq_makefile', '-f', '_CoqProject', '-o', 'Makefile'], cwd=COQ, check=True)


def forbidden_scan(paths):
    bad = []
    for p in paths:
        if not os.path.exists(p):
            continue
        txt = open(p).read()
        # strip comments (non nested is enough for our sources)
        txt2 = re.sub(r'\(\*.*?\*\)', '', txt, flags=re.S)
        for m in FORBIDDEN.finditer(txt2):
            bad.append('%s: %s' % (os.path.relpath(p, VERIF), m.group(0)))
    return bad


def coq_make(targets, timeout=1500):
    """make -k the given .vo targets; returns (ok, log)"""
    with Lock('coq'):
        coq_project()
        p = sh(['make', '-k', '-j%d' % NCPU] + targets, cwd=COQ, timeout=timeout, mem=COQ_MEM_LIMIT)
    log = (p.stdout + p.stderr).decode(errors='replace')
    return p.returncode == 0, log


def theorem_names(vfile):
    txt = open(vfile).read()
    txt = re.sub(r'\(\*.*?\*\)', '', txt, flags=re.S)
    return re.findall(r'^\s*(?:Theorem|Lemma|Corollary)\s+([A-Za-z0-9_\']+)', txt, flags=re.M)


def coq_props(prop_dir, extra_files=()):
    """Build <prop_dir>/Props.v (and what it depends on). Returns dict with obligations,
    discharged, failing (list of names/files), assumptions (dict thm -> text), log."""
    props_v = os.path.join(COQ, prop_dir, 'Props.v')
    names = theorem_names(props_v)
    for ef in extra_files:
        names += ['%s:%s' % (ef, n) for n in theorem_names(os.path.join(COQ, ef))]
    res = {'obligations': len(names), 'discharged': 0, 'failing': [], 'assumptions': {}, 'log': '',
           'names': names, 'forbidden': []}
    own = glob.glob(os.path.join(COQ, prop_dir, '*.v')) + glob.glob(os.path.join(COQ, 'Base', '*.v'))
    res['forbidden'] = forbidden_scan(own)
    t0 = time.time()
    # dependencies first via make (Props.vo itself is built by make too so that other files may import it)
    ok, log = coq_make([os.path.join(prop_dir, 'Props.vo')] + [ef[:-2] + '.vo' for ef in extra_files])
    res['log'] = log[-8000:]
    res['coq_wall_s'] = round(time.time() - t0, 2)
    if not ok:
        # which file failed?
        m = re.findall(r'File "\./([^"]+)", line (\d+)', log)
        res['failing'] = sorted(set('%s:%s' % (f, l) for f, l in m)) or ['make failed']
        # theorems of Props.v before the first error in Props.v count as discharged only if all deps built
        perr = [int(l) for f, l in m if f == os.path.join(prop_dir, 'Props.v')]
        other = [f for f, l in m if f != os.path.join(prop_dir, 'Props.v')]
        if perr and not other:
            src = open(props_v).read().split('\n')
            head = '\n'.join(src[:min(perr) - 1])
            res['discharged'] = len(theorem_names_txt(head))
            # a theorem whose statement is before the error line but whose Qed is not: that one is failing
            hs = re.sub(r'\(\*.*?\*\)', '', head, flags=re.S)
            last = None
            for last in re.finditer(r'^\s*(?:Theorem|Lemma|Corollary)\s+[A-Za-z0-9_\']+', hs, flags=re.M):
                pass
            if last is not None and not re.search(r'\b(Qed|Defined)\s*\.', hs[last.end():]):
                res['discharged'] -= 1
            bad = [n for n in theorem_names(props_v)][res['discharged']:res['discharged'] + 1]
            res['failing'] += bad
        return res
    # Print Assumptions: rerun coqc on Props.v alone, capturing stdout
    # (output goes to a scratch .vo, so this pass reads the project but writes nothing into it: no project lock needed;
    #  a concurrent make of another property does not touch the files Props.v depends on)
    pa_dir = os.path.join(WORK, 'pa', prop_dir, str(os.getpid()))
    os.makedirs(pa_dir, exist_ok=True)
    p = sh(['coqc', '-Q', '.', 'CppcmsV', '-w', '-notation-overridden,-deprecated,-ambiguous-paths',
            '-o', os.path.join(pa_dir, 'Props.vo'),
            os.path.join(prop_dir, 'Props.v')], cwd=COQ, timeout=600, mem=COQ_MEM_LIMIT)
    shutil.rmtree(pa_dir, ignore_errors=True)
    out = p.stdout.decode(errors='replace')
    if p.returncode != 0:
        res['failing'] = ['Props.v recompile failed']
        res['log'] = (out + p.stderr.decode(errors='replace'))[-8000:]
        return res
    res['assumptions_raw'] = out
    blocks = re.split(r'(?=^Closed under the global context|^Axioms:|^Section Variables:)', out, flags=re.M)
    blocks = [b.strip() for b in blocks if b.strip()]
    res['assumption_blocks'] = blocks
    res['discharged'] = len(names)
    return res


def theorem_names_txt(txt):
    txt = re.sub(r'\(\*.*?\*\)', '', txt, flags=re.S)
    return re.findall(r'^\s*(?:Theorem|Lemma|Corollary)\s+([A-Za-z0-9_\']+)', txt, flags=re.M)


ALLOWED_AXIOMS = {
    'functional_extensionality_dep', 'Eqdep.Eq_rect_eq.eq_rect_eq', 'eq_rect_eq', 'JMeq_eq',
    'proof_irrelevance', 'classic', 'ClassicalDedekindReals.sig_forall_dec', 'ClassicalDedekindReals.sig_not_dec',
    'propositional_extensionality',
}


def axioms_used(res):
    """names of axioms reported by Print Assumptions in Props.v"""
    ax = set()
    for b in res.get('assumption_blocks', []):
        if b.startswith('Axioms:'):
            for m in re.finditer(r'^([A-Za-z0-9_\.\']+)\s*:', b[len('Axioms:'):], flags=re.M):
                ax.add(m.group(1))
    return sorted(ax)


# ----------------------------------------------------------------------------------
# extraction + OCaml driver
# ----------------------------------------------------------------------------------
def build_model(prop_dir, driver, modname):
    """coqc coq/<prop_dir>/Extract.v in .work/ocaml/<prop_dir> (it must `Extraction "<modname>.ml" ...`),
    then compile ocaml/common.ml + ocaml/<driver> against it. Returns (exe, err)."""
    d = os.path.join(WORK, 'ocaml', prop_dir)
    os.makedirs(d, exist_ok=True)
    ok, log = coq_make([os.path.join(prop_dir, 'Defs.vo')])
    if not ok:
        return None, 'Defs.vo does not build:\n' + log[-4000:]
    with Lock('ocaml-' + prop_dir):
        shutil.copy(os.path.join(COQ, prop_dir, 'Extract.v'), os.path.join(d, 'Extract.v'))
        p = sh(['coqc', '-Q', COQ, 'CppcmsV', '-w', '-all', 'Extract.v'], cwd=d, timeout=600)
        if p.returncode != 0:
            return None, 'extraction failed:\n' + (p.stdout + p.stderr).decode(errors='replace')[-4000:]
        common = open(os.path.join(VERIF, 'ocaml', 'common.ml')).read()
        drv = open(os.path.join(VERIF, 'ocaml', driver)).read()
        with open(os.path.join(d, 'main.ml'), 'w') as f:
            f.write('open %s\n' % modname.capitalize() + common + '\n' + drv)
        exe = os.path.join(d, 'driver')
        exe_bin = exe + '.bin'
        p = sh(['ocamlfind', 'ocamlopt', '-O3', '-unboxed-types', '-w', '-a', modname + '.mli', modname + '.ml', 'main.ml', '-o', exe_bin],
               cwd=d, timeout=600)
        if p.returncode != 0:
            p = sh(['ocamlfind', 'ocamlopt', '-w', '-a', modname + '.mli', modname + '.ml', 'main.ml', '-o', exe_bin],
                   cwd=d, timeout=600)
        if p.returncode != 0:
            return None, 'ocaml build failed:\n' + (p.stdout + p.stderr).decode(errors='replace')[-4000:]
        # extracted functions are not tail recursive: long inputs need a deep stack (the default 8 MB soft limit
        # made the model die with Stack_overflow on 64 KiB strings); the wrapper raises the soft limit to 4 GiB
        with open(exe + '.tmp', 'w') as f:
            f.write('#!/bin/bash\nulimit -s 4194304 2>/dev/null || ulimit -s $(ulimit -Hs) 2>/dev/null\nexec "%s" "$@"\n' % exe_bin)
        os.chmod(exe + '.tmp', 0o755)
        os.replace(exe + '.tmp', exe)
    return exe, ''


def run_lines(exe, lines, timeout=1200, env=None, cwd=None):
    """feed lines on stdin, get list of output lines (one per case)"""
    inp = ('\n'.join(lines) + '\n').encode()
    p = sh([exe] if isinstance(exe, str) else exe, inp=inp, timeout=timeout, env=env, cwd=cwd)
    out = p.stdout.decode(errors='replace').split('\n')
    if out and out[-1] == '':
        out.pop()
    return p.returncode, out, p.stderr.decode(errors='replace')


def run_lines_parallel(exe, lines, jobs=None, **kw):
    jobs = jobs or NCPU
    if len(lines) < 2000 or jobs == 1:
        return run_lines(exe, lines, **kw)
    import concurrent.futures
    n = len(lines)
    step = (n + jobs - 1) // jobs
    parts = [lines[i:i + step] for i in range(0, n, step)]
    with concurrent.futures.ThreadPoolExecutor(jobs) as ex:
        rs = list(ex.map(lambda part: run_lines(exe, part, **kw), parts))
    rc = max(r[0] for r in rs)
    out = []
    for r, part in zip(rs, parts):
        o = r[1]
        if len(o) != len(part):
            rc = rc or 99
            o = o + ['<missing>'] * (len(part) - len(o))
        out += o[:len(part)]
    return rc, out, ''.join(r[2] for r in rs)


# ----------------------------------------------------------------------------------
# known findings
# ----------------------------------------------------------------------------------
def load_known(prop):
    """known_findings.txt lines:
         finding: property=<id> key=<key> <description>
         fixed: property=<id> <commit> <what failed>
       A finding is matched by its key, which the check derives from the failing input (a predicate
       on the input, not the input itself)."""
    out = {}
    p = os.path.join(VERIF, 'known_findings.txt')
    if not os.path.exists(p):
        return out
    for l in open(p):
        l = l.strip()
        m = re.match(r'finding:\s+property=(\S+)\s+key=(\S+)\s+(.*)', l)
        if m and m.group(1) == prop:
            out[m.group(2)] = m.group(3)
    return out


# ----------------------------------------------------------------------------------
# context / verdict
# ----------------------------------------------------------------------------------
class Ctx:
    def __init__(self, prop, tier, seed):
        self.prop, self.tier, self.seed = prop, tier, seed
        self.t0 = time.time()
        self.rng = random.Random(seed)
        self.coverage = {}
        self.assumptions = []
        self.failures = []      # (key, description, replay_text)  real failing inputs (oracle on the implementation)
        self.broken = []        # (what, detail) proof / correspondence / tie that no longer checks
        self.notes = []
        self.known = load_known(prop)
        os.makedirs(os.path.join(WORK, prop), exist_ok=True)
        self.workdir = os.path.join(WORK, prop)

    def quick(self):
        return self.tier == 'quick'

    def scale(self, q, t):
        return q if self.tier == 'quick' else t

    def fail(self, key, desc, replay):
        self.failures.append((key, desc, replay))

    def broke(self, what, detail=''):
        self.broken.append((what, detail))

    def proof(self, res, allowed_extra=()):
        """record proof status from coq_props"""
        cov = self.coverage
        cov['obligations'] = cov.get('obligations', 0) + res['obligations']
        cov['discharged'] = cov.get('discharged', 0) + res['discharged']
        cov.setdefault('theorems', []).extend(res['names'])
        cov['coq_wall_s'] = res.get('coq_wall_s')
        if res['forbidden']:
            self.broke('forbidden construct in Coq sources', '; '.join(res['forbidden']))
        if res['discharged'] != res['obligations'] or res['failing']:
            self.broke('proof: ' + ', '.join(res['failing']), res['log'][-3000:])
        ax = axioms_used(res)
        cov['axioms_reported_by_Print_Assumptions'] = ax
        bad = [a for a in ax if a.split('.')[-1] not in {x.split('.')[-1] for x in ALLOWED_AXIOMS} and a not in allowed_extra]
        if bad:
            self.broke('unexpected axioms: ' + ', '.join(bad))
        nblocks = len(res.get('assumption_blocks', []))
        cov['print_assumptions_blocks'] = nblocks
        cov['closed_under_global_context'] = sum(1 for b in res.get('assumption_blocks', []) if b.startswith('Closed'))

    def finish(self):
        ev_dir = os.path.join(VERIF, 'evidence')
        os.makedirs(ev_dir, exist_ok=True)
        rp_dir = os.path.join(VERIF, 'replay', self.prop)
        os.makedirs(rp_dir, exist_ok=True)
        for old in ([] if getattr(self, 'replay_cases', None) is not None else glob.glob(os.path.join(rp_dir, self.tier + '-*'))):   # stale files of earlier runs
            try:
                os.remove(old)
            except OSError:
                pass
        lines = []
        rc = 0
        seen_known = set()
        new_fail = []
        for key, desc, replay in self.failures:
            if key in self.known:
                if key not in seen_known:
                    seen_known.add(key)
                    lines.append('KNOWN-FINDING: property=%s %s [%s]' % (self.prop, self.known[key], key))
            else:
                new_fail.append((key, desc, replay))
        viol = 0
        if new_fail:
            # one VIOLATION line per distinct key (first = smallest replay)
            bykey = {}
            for key, desc, replay in new_fail:
                if key not in bykey or len(replay) < len(bykey[key][1]):
                    bykey[key] = (desc, replay)
            for i, (key, (desc, replay)) in enumerate(sorted(bykey.items())):
                path = os.path.join(rp_dir, '%s-%s.case' % (self.tier, re.sub(r'\W+', '_', key)[:60]))
                with open(path, 'w') as f:
                    f.write('# property=%s key=%s\n# %s\n' % (self.prop, key, desc.replace('\n', '\n# ')))
                    f.write(replay if replay.endswith('\n') else replay + '\n')
                lines.append('VIOLATION property=%s replay=%s' % (self.prop, os.path.relpath(path, VERIF)))
                viol += 1
            rc = 1
        elif self.broken:
            path = os.path.join(rp_dir, '%s-broken.txt' % self.tier)
            with open(path, 'w') as f:
                f.write('# property=%s: the following no longer check; no failing input was found by the search\n' % self.prop)
                for what, detail in self.broken:
                    f.write('BROKEN: %s\n' % what)
                    if detail:
                        f.write('  ' + detail.replace('\n', '\n  ') + '\n')
            lines.append('VIOLATION property=%s replay=%s no-failing-input-found' % (self.prop, os.path.relpath(path, VERIF)))
            viol = 1
            rc = 1
        cov = self.coverage
        cov.pop('_seen', None)
        cov.setdefault('obligations', 0)
        cov.setdefault('discharged', 0)
        cov.setdefault('checker_cmd', 'make -C coq -k -j%d %s/Props.vo (coq_makefile, coqc 8.16.1, full .vo) ; coqc %s/Props.v (Print Assumptions)' % (NCPU, self.prop, self.prop))
        cov.setdefault('trusted_base', [])
        cov.setdefault('evaluations', 0)
        cov.setdefault('distinct_nontrivial', 0)
        cov.setdefault('rule', '')
        cov.setdefault('samples', [])
        cov['broken'] = [w for w, _ in self.broken]
        cov['known_findings_seen'] = sorted(seen_known)
        if self.notes:
            cov['notes'] = self.notes
        ev = {'property_id': self.prop, 'tier': self.tier, 'seed': self.seed, 'level': 'proof',
              'coverage': cov, 'assumptions': self.assumptions, 'wall_s': round(time.time() - self.t0, 2),
              'violations': viol}
        with open(os.path.join(ev_dir, self.prop + '.json'), 'w') as f:
            json.dump(ev, f, indent=1, sort_keys=True)
            f.write('\n')
        for l in lines:
            print(l)
        print('%s %s tier=%s seed=%d obligations=%d discharged=%d evaluations=%d wall=%.1fs' % (
            self.prop, 'OK' if rc == 0 else 'FAIL', self.tier, self.seed, cov['obligations'], cov['discharged'],
            cov['evaluations'], time.time() - self.t0))
        if rc != 0:
            for what, detail in self.broken:
                print('  broken: %s' % what)
        return rc


def hexs(b):
    return bytes(b).hex() if b else '-'


def unhex(s):
    return b'' if s == '-' else bytes.fromhex(s)


def repo_incs():
    return [REPO, REPO + '/booster', BUILD, BUILD + '/booster', REPO + '/private']


def gen_coq(specs):
    """regenerate coq/gen/<name>.v from /repo's current source. specs: dict name -> cxx2v spec
    (src relative to /repo, incs default to the library include path). Returns [(name, error)]."""
    import cxx2v
    errs = []
    for n, spec in specs.items():
        spec = dict(spec)
        if not os.path.isabs(spec['src']):
            spec['src'] = os.path.join(REPO, spec['src'])
        spec.setdefault('incs', repo_incs())
        out = os.path.join(COQ, 'gen', n + '.v')
        try:
            with Lock('gen-' + n):
                cxx2v.generate(spec, out)
        except cxx2v.Unsupported as e:
            errs.append((n, str(e)))
            # leave a file that does not compile so that dependants fail loudly
            write_if_changed(out, '(* translator failed: %s *)\nDefinition broken : False := I.\n' % str(e).replace('*)', '* )').replace('"', "'"))
    return errs


# ----------------------------------------------------------------------------------
# generic line-based differential check (DESIGN.md 2.4/2.5)
# ----------------------------------------------------------------------------------
def corpus_cases(prop):
    out = []
    d = os.path.join(VERIF, 'corpus', prop)
    if os.path.isdir(d):
        for fn in sorted(os.listdir(d)):
            for l in open(os.path.join(d, fn)):
                l = l.rstrip('\n')
                if l and not l.startswith('#'):
                    out.append(l)
    return out


def differential(ctx, cases, impl_cmd, model_cmd, oracle, nontrivial=None, classify=None,
                 impl_env=None, what='correspondence model vs implementation', parallel=True, canon=None, canon_model=None, jobs=None, canon_case=None):
    """run implementation harness and extracted model on the same case lines.
    oracle(case, impl_line) -> None | (key, description): the property itself evaluated on the
    implementation's answer alone."""
    t0 = time.time()
    runner = (lambda exe, lines, **kw: run_lines_parallel(exe, lines, jobs=jobs, **kw)) if parallel else run_lines
    rc_i, out_i, err_i = runner(impl_cmd, cases, env=impl_env)
    t1 = time.time()
    rc_m, out_m, err_m = runner(model_cmd, cases) if model_cmd else (0, None, '')
    t2 = time.time()
    cov = ctx.coverage
    cov['evaluations'] = cov.get('evaluations', 0) + len(cases)
    cov['impl_wall_s'] = round(cov.get('impl_wall_s', 0) + t1 - t0, 2)
    cov['model_wall_s'] = round(cov.get('model_wall_s', 0) + t2 - t1, 2)
    if len(out_i) != len(cases):
        ctx.broke('implementation harness produced %d lines for %d cases (rc=%s)' % (len(out_i), len(cases), rc_i), err_i[-3000:])
        # the case after the last answered one is the likely crash input
        if len(out_i) < len(cases):
            bad = cases[len(out_i)]
            r = oracle(bad, '<crash rc=%s> %s' % (rc_i, err_i[-400:].replace('\n', ' | ')))
            if r:
                ctx.fail(r[0], r[1], bad)
        return
    if out_m is not None and len(out_m) != len(cases):
        ctx.broke('model driver produced %d lines for %d cases' % (len(out_m), len(cases)), err_m[-2000:])
        out_m = None
    ndiff = 0
    hist = cov.setdefault('distribution', {})
    seen = cov.setdefault('_seen', set())
    for i, c in enumerate(cases):
        a = out_i[i]
        r = oracle(c, a)
        if canon_case:
            a = canon_case(c, a)
        elif canon:
            a = canon(a)
        if r:
            ctx.fail(r[0], r[1] + '\n  case: %s\n  impl: %s' % (c[:400], a[:400]), c)
        if out_m is not None:
            cm = canon_model or canon
            b = cm(out_m[i]) if cm else out_m[i]
            if a != b:
                ndiff += 1
                if ndiff <= 5:
                    ctx.broke('%s: differ on case' % what, 'case:  %s\nimpl:  %s\nmodel: %s' % (c[:600], a[:600], b[:600]))
        if classify:
            k = classify(c, a)
            hist[k] = hist.get(k, 0) + 1
        if nontrivial is None or nontrivial(c, a):
            seen.add(hashlib.md5(c.encode()).digest())
    cov['distinct_nontrivial'] = len(seen)
    cov['correspondence_differences'] = cov.get('correspondence_differences', 0) + ndiff
    if len(cov.get('samples', [])) < 6:
        step = max(1, len(cases) // 5)
        for i in range(0, len(cases), step):
            cov.setdefault('samples', []).append({'case': cases[i][:300], 'impl': out_i[i][:300],
                                                  'model': (out_m[i][:300] if out_m else None)})


def finalize_cov(ctx):
    ctx.coverage.pop('_seen', None)
