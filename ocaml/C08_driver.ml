(* C08 model driver: same line protocol as harness/C08_cache.cpp (mode seq) and harness/C08_buddy.cpp (mode bud) *)
let ten = n_of_int 10
let rec pos_bits = function XH -> 1 | XO p -> 1 + pos_bits p | XI p -> 1 + pos_bits p
let string_of_n n = match n with
  | N0 -> "0"
  | Npos p -> if pos_bits p <= 60 then string_of_int (int_of_n n) else begin
      let rec go n acc = if n = N0 then acc else let (q, r) = N.div_eucl n ten in go q (string_of_int (int_of_n r) ^ acc) in
      go n "" end
let n_of_string s =
  if String.length s <= 17 then n_of_int (int_of_string s)
  else begin
    let acc = ref N0 in
    String.iter (fun c -> acc := N.add (N.mul !acc ten) (n_of_int (Char.code c - 48))) s; !acc end
let z_of_string s =
  if String.length s > 0 && s.[0] = '-' then
    (match n_of_string (String.sub s 1 (String.length s - 1)) with N0 -> Z0 | Npos p -> Zneg p)
  else (match n_of_string s with N0 -> Z0 | Npos p -> Zpos p)
let string_of_z = function Z0 -> "0" | Zpos p -> string_of_n (Npos p) | Zneg p -> "-" ^ string_of_n (Npos p)

let value_of t =
  if String.length t > 0 && t.[0] = '#' then begin
    let x = String.index t 'x' in
    let len = int_of_string (String.sub t 1 (x - 1)) in
    let pre = bytes_of_hex (String.sub t (x + 1) (String.length t - x - 1)) in
    let n = List.length pre in
    let v = n_of_int 118 in
    let rec pad k acc = if k <= 0 then acc else pad (k - 1) (v :: acc) in
    pre @ pad (len - n) [] end
  else bytes_of_hex t
let valtok (v : n list) =
  let len = List.length v in
  if len <= 32 then hex_of_bytes v
  else begin
    let h = ref 0xcbf29ce484222325L and i = ref 0 and odd = ref 0 in
    List.iter (fun b ->
      if !i < 32 then h := Int64.mul (Int64.logxor !h (Int64.of_int (int_of_n b))) 0x100000001b3L
      else if int_of_n b <> 118 then incr odd;
      incr i) v;
    Printf.sprintf "#%d.%016Lx.%d" len !h !odd end
let trigs_of t = if t = "." then [] else List.map bytes_of_hex (String.split_on_char '+' t)
let trigtok (l : n list list) =
  if l = [] then "." else String.concat "+" (List.sort compare (List.map hex_of_bytes l))

let parse_op tok =
  match String.split_on_char ':' tok with
  | ["S"; k; v; tr; d; g] ->
      ("s", Store (bytes_of_hex k, value_of v, trigs_of tr, z_of_string d,
                   (if g = "-" then None else Some (n_of_string g)), FNone, []))
  | ["F"; k] -> ("f", Fetch (bytes_of_hex k))
  | ["R"; t] -> ("r", Rise (bytes_of_hex t))
  | ["D"; k] -> ("d", Remove (bytes_of_hex k))
  | ["C"] -> ("c", Clear)
  | ["T"; n] -> ("t", Tick (z_of_string n))
  | _ -> failwith "bad op"

let lrutok (l : n list list) = if l = [] then "." else String.concat "," (List.map hex_of_bytes l)

let run_seq lim t0 toks =
  let s = ref (init (n_of_string lim)) and now = ref (z_of_string t0) in
  let b = Buffer.create 1024 in
  List.iter (fun tok ->
    let (tag, o) = parse_op tok in
    let ((now1, s1), r) = step !now o !s in
    now := now1; s := s1;
    let (k, t) = stats s1 in
    let st = string_of_n k ^ "/" ^ string_of_n t ^ ":" ^ lrutok s1.lru in
    if Buffer.length b > 0 then Buffer.add_char b ' ';
    Buffer.add_string b (match r with
      | OHit (v, tr, d, g) -> "h:" ^ valtok v ^ ":" ^ trigtok tr ^ ":" ^ string_of_z d ^ ":" ^ string_of_n g ^ ":" ^ st
      | OMiss -> "m:" ^ st
      | ONone -> tag ^ ":" ^ st)) toks;
  let tt = if !s.timeout = [] then "-" else
    String.concat "," (List.map (fun (d, k) -> string_of_z d ^ "=" ^ hex_of_bytes k) !s.timeout) in
  if Buffer.length b > 0 then Buffer.add_char b ' ';
  Buffer.add_string b ("X:" ^ tt ^ ":ok");
  if !s.err then "FUEL" else Buffer.contents b

(* ---- buddy allocator ---- *)
let sixteen = n_of_int 16
let run_bud msize toks =
  let s = ref (b_init (n_of_string msize)) in
  let slots = ref [] (* newest first: (id, ptr option) *) and nslots = ref 0 in
  let b = Buffer.create 1024 in
  let tot () =
    let hb = ref (-1) in
    for bits = 0 to 63 do if !s.b_fl (n_of_int bits) <> [] then hb := bits done;
    ":" ^ string_of_n (total_free_memory !s) ^ ":" ^ string_of_n (max_free_chunk !s) ^ ":" ^ string_of_int !hb in
  (* keep the free-list function shallow: replace the chain of updates by a table with the same values (extensionally the same function) *)
  let compact () =
    let st = !s in
    let arr = Array.init 64 (fun i -> st.b_fl (n_of_int i)) in
    let old = st.b_fl in
    s := { st with b_fl = (fun b -> let i = int_of_n b in if i < 64 then arr.(i) else old b) } in
  let free_slot id =
    slots := List.map (fun (i, p) ->
      if i = id then (match p with Some ptr -> s := b_free ptr !s; (i, None) | None -> (i, None)) else (i, p)) !slots in
  List.iter (fun tok ->
    if Buffer.length b > 0 then Buffer.add_char b ' ';
    (match tok.[0] with
    | 'm' ->
        let req = n_of_string (String.sub tok 1 (String.length tok - 1)) in
        let (r, s1) = b_malloc req !s in
        s := s1;
        slots := (!nslots, r) :: !slots; incr nslots;
        Buffer.add_string b ((match r with Some p -> string_of_n p | None -> "-") ^ tot ())
    | 'f' ->
        free_slot (int_of_string (String.sub tok 1 (String.length tok - 1)));
        Buffer.add_string b ("f" ^ tot ())
    | 'A' -> List.iter (fun (i, _) -> free_slot i) (List.rev !slots); Buffer.add_string b ("f" ^ tot ())
    | 'Z' -> List.iter (fun (i, _) -> free_slot i) !slots; Buffer.add_string b ("f" ^ tot ())
    | _ -> Buffer.add_string b "BAD-OP");
    compact ()) toks;
  (* free lists *)
  let fl = ref [] in
  for bits = 63 downto 0 do
    match !s.b_fl (n_of_int bits) with
    | [] -> ()
    | l -> fl := (string_of_int bits ^ "=" ^ String.concat "," (List.map string_of_n l)) :: !fl
  done;
  Buffer.add_string b (" F:" ^ (if !fl = [] then "-" else String.concat ";" !fl));
  (* page walk *)
  let pages = ref [] and pos = ref N0 and go = ref true and guard = ref 0 in
  while !go && !guard < 10000000 do
    incr guard;
    match !s.b_hdr !pos with
    | None -> go := false
    | Some (bits, u) ->
        pages := (string_of_n !pos ^ "." ^ string_of_n bits ^ (if u then "u" else "f")) :: !pages;
        pos := N.add !pos (N.pow (n_of_int 2) bits)
  done;
  Buffer.add_string b (" P:" ^ (if !pages = [] then "-" else String.concat "," (List.rev !pages)));
  Buffer.add_string b (if !s.b_err then " T:MODEL-ERR" else " T:ok");
  Buffer.contents b


(* ---- resource model: the process cache over the buddy model (mode exh) ---- *)
let bytes_of_string (x : string) : n list = List.init (String.length x) (fun i -> byte_tab.(Char.code x.[i]))
let padded tag id j len fill =
  let r = if j >= 0 then Printf.sprintf "%c%d_%d_" tag id j else Printf.sprintf "%c%d_" tag id in
  if String.length r < len then r ^ String.make (len - String.length r) fill else r
let tlen_of spec j =
  match String.split_on_char '-' spec with
  | [a] -> int_of_string a
  | a :: b :: _ -> let lo = int_of_string a and hi = max (int_of_string a) (int_of_string b) in lo + (j * 7) mod (hi - lo + 1)
  | [] -> 0
let two = n_of_int 2
let run_exh kib limit _t0 _pct steps =
  let seg = int_of_string kib * 1024 in
  let a0 = b_init (n_of_int seg) in
  (* mem_cache::operator new: the object itself lives in the segment (a block of another owner for the model) *)
  let (_obj, a1) = b_malloc sz_object a0 in
  (* the constructor ends with nl_clear(): two bucket vectors of `limit` buckets (none for limit 0) *)
  let r = ref (rclear (r_init a1 (n_of_string limit))) in
  let hogs = ref [||] in
  let lru = ref [] in                      (* keys, most recently stored first *)
  (* replace the chains of functional updates by tables with the same values *)
  let pages () =
    let st = !r.r_a in
    let l = ref [] and pos = ref N0 and go = ref true and guard = ref 0 in
    while !go && !guard < 10000000 do
      incr guard;
      match st.b_hdr !pos with
      | None -> go := false
      | Some (bits, u) -> l := (!pos, bits, u) :: !l; pos := N.add !pos (N.pow two bits)
    done;
    List.rev !l in
  let compact () =
    let st = !r.r_a in
    let arr = Array.init 64 (fun i -> st.b_fl (n_of_int i)) in
    let oldf = st.b_fl in
    let h = Hashtbl.create 1024 in
    List.iter (fun (o, b, u) -> Hashtbl.replace h (int_of_n o) (b, u)) (pages ());
    let msz = int_of_n st.b_msize in
    let oldh = st.b_hdr in
    r := with_a { st with b_fl = (fun b -> let i = int_of_n b in if i < 64 then arr.(i) else oldf b);
                          b_hdr = (fun o -> match o with
                                     | N0 -> Hashtbl.find_opt h 0
                                     | Npos p -> if pos_bits p <= 40 then (let i = int_of_n o in if i <= msz then Hashtbl.find_opt h i else oldh o) else oldh o) } !r in
  let has_pn k = List.exists (fun (t, _) -> match t with TPN k' -> k' = k | _ -> false) !r.r_b in
  let stats () =
    let keys = List.length (List.filter (fun (t, _) -> match t with TPN _ -> true | _ -> false) !r.r_b) in
    let trg = List.length (List.filter (fun (t, _) -> match t with TL (_, _) -> true | _ -> false) !r.r_b) in
    Printf.sprintf "%d/%d" keys trg in
  let b = Buffer.create 4096 in
  List.iteri (fun i st ->
    if i > 0 then Buffer.add_char b ' ';
    let f = String.split_on_char ':' st in
    (match f with
    | ["M"] ->
        let pg = pages () in
        let used = List.fold_left (fun acc (_, bits, u) -> if u then acc + (1 lsl int_of_n bits) else acc) 0 pg in
        let free = List.filter (fun (_, _, u) -> not u) pg in
        let ptxt =
          if List.length free <= 24 then
            (if free = [] then "-" else String.concat "," (List.map (fun (o, bits, _) -> string_of_n o ^ "." ^ string_of_n bits) free))
          else begin
            let h = ref 0xcbf29ce484222325L in
            List.iter (fun (o, bits, _) ->
              h := Int64.mul (Int64.logxor !h (Int64.of_int (int_of_n o * 64 + int_of_n bits))) 0x100000001b3L) free;
            Printf.sprintf "n%d.%Lx" (List.length free) !h end in
        Buffer.add_string b (Printf.sprintf "M:%s:%d:%s:%s:%s:%s" (stats ()) used (string_of_n (total_free_memory !r.r_a))
                               (string_of_n (max_free_chunk !r.r_a)) ptxt (if !r.r_a.b_err then "MODEL-ERR" else "ok"))
    | [h; keep; stride] when String.length h > 1 && h.[0] = 'H' ->
        let sz = n_of_string (String.sub h 1 (String.length h - 1)) and keep = int_of_string keep and stride = max 1 (int_of_string stride) in
        let l = ref (List.rev (Array.to_list !hogs)) in
        let go = ref true and cnt = ref 0 in
        while !go do
          let (p, a) = b_malloc sz !r.r_a in
          r := with_a a !r;
          (match p with Some _ -> l := p :: !l | None -> go := false);
          incr cnt; if !cnt land 15 = 0 then compact ()
        done;
        let arr = Array.of_list (List.rev !l) in
        let n = Array.length arr in
        let j = ref 0 in
        while !j < keep && !j * stride < n do
          let idx = n - 1 - !j * stride in
          (match arr.(idx) with Some p -> r := with_a (b_free p !r.r_a) !r; arr.(idx) <- None | None -> ());
          incr j
        done;
        hogs := arr;
        Buffer.add_string b (Printf.sprintf "H%d" (Array.fold_left (fun c p -> if p = None then c else c + 1) 0 arr))
    | ["U"] ->
        Array.iteri (fun idx p -> (match p with Some p -> r := with_a (b_free p !r.r_a) !r | None -> ()); if idx land 15 = 0 then compact ()) !hogs;
        hogs := [||];
        Buffer.add_string b "U"
    | ["S"; klen; vlen; nt; tspec; id] ->
        let id = int_of_string id in
        let key = padded 'K' id (-1) (int_of_string klen) 'k' in
        let v = List.init (int_of_string vlen) (fun _ -> byte_tab.(97 + id mod 26)) in
        let names = List.sort_uniq compare (List.init (int_of_string nt) (fun j -> padded 'T' id j (tlen_of tspec j) 't')) in
        let names = List.filter (fun t -> t <> key) names in
        let k = bytes_of_string key in
        (* check_limits(): evict the least recently stored entry while not_enough_memory() (deadlines are never reached here) *)
        let (r1, ok) = opt_alloc TAr (strsz v) !r in
        let ev = ref [] in
        if ok then begin
          let cur = ref (r_delete_node k r1) and order = ref (List.rev (List.filter (fun x -> x <> k) !lru)) in
          let pressed () = not_enough_memory (n_of_int seg) !cur.r_a in
          while !order <> [] && pressed () do
            let victim = List.hd !order in
            order := List.tl !order; ev := victim :: !ev; cur := r_delete_node victim !cur
          done end;
        r := r_store true k v (List.map bytes_of_string names) (List.rev !ev) !r;
        lru := k :: List.filter (fun x -> x <> k) !lru;
        lru := List.filter has_pn !lru;
        Buffer.add_string b ("s" ^ stats ())
    | ["F"; klen; _vlen; id] ->
        (* fetch: one splice of the recency list, no block obtained or released (RFetch); the key moves to the front *)
        let k = bytes_of_string (padded 'K' (int_of_string id) (-1) (int_of_string klen) 'k') in
        r := rstep true (RFetch k) !r;
        if has_pn k then begin lru := k :: List.filter (fun x -> x <> k) !lru; Buffer.add_string b "h1" end
        else Buffer.add_string b "m"
    | ["D"; klen; id] ->
        let k = bytes_of_string (padded 'K' (int_of_string id) (-1) (int_of_string klen) 'k') in
        r := rstep true (RRemove k) !r; lru := List.filter has_pn !lru;
        Buffer.add_string b ("d" ^ stats ())
    | ["R"; tspec; id; j] ->
        let j = int_of_string j in
        let t = bytes_of_string (padded 'T' (int_of_string id) j (tlen_of tspec j) 't') in
        r := rstep true (RRise t) !r; lru := List.filter has_pn !lru;
        Buffer.add_string b ("r" ^ stats ())
    | ["C"] ->
        let threw = not (snd (nl_clear !r)) in
        r := rclear !r; lru := List.filter has_pn !lru; Buffer.add_string b ((if threw then "c!" else "c") ^ stats ())
    | _ -> Buffer.add_string b "UNSUPPORTED");
    compact ()) steps;
  Buffer.contents b


(* ---- failure injection at the k-th allocation of one store (mode inj, limit 0) ---- *)
let run_inj limit klen vlen nt tspec kmax npre =
  if limit <> "0" then "UNSUPPORTED" else begin
  let klen = int_of_string klen and vlen = int_of_string vlen and nt = int_of_string nt in
  let b = Buffer.create 4096 in
  let a0 = b_init (n_of_int (4 * 1024 * 1024)) in
  for k = 1 to int_of_string kmax do
    let r = ref (r_init a0 N0) in
    for i = 0 to int_of_string npre - 1 do
      let v = List.init vlen (fun _ -> byte_tab.(97 + i mod 26)) in
      r := r_store true (bytes_of_string (padded 'P' i (-1) klen 'k')) v [bytes_of_string (padded 'A' 0 (-1) (tlen_of tspec 0) 't')] [] !r
    done;
    let key = padded 'K' k (-1) klen 'k' in
    let kb = bytes_of_string key in
    let v = List.init vlen (fun _ -> byte_tab.(97 + k mod 26)) in
    let names = List.filter (fun t -> t <> key) (List.sort_uniq compare (List.init nt (fun j -> padded 'T' k j (tlen_of tspec j) 't'))) in
    r := rstep true (RInject (List.init k (fun i -> i = k - 1))) !r;
    r := r_store true kb v (List.map bytes_of_string names) [] !r;
    let fired = (!r.r_faults = []) in
    let keys = List.length (List.filter (fun (t, _) -> match t with TPN _ -> true | _ -> false) !r.r_b) in
    let trg = List.length (List.filter (fun (t, _) -> match t with TL (_, _) -> true | _ -> false) !r.r_b) in
    let hit = List.exists (fun (t, _) -> match t with TPN k' -> k' = kb | _ -> false) !r.r_b in
    if k > 1 then Buffer.add_char b ' ';
    Buffer.add_string b (Printf.sprintf "%d:%d/%d:%s:0:ok" (if fired then 1 else 0) keys trg (if hit then "h1" else "m"))
  done;
  Buffer.contents b end

let () = main_loop (function
  | "seq" :: _backend :: lim :: t0 :: toks -> run_seq lim t0 toks
  | ["bud"; "consts"] ->
      string_of_n alignment_bits ^ " " ^ string_of_n alignment ^ " " ^ string_of_n page_in_use ^ " " ^ string_of_n self_size ^ " " ^ string_of_n page_header_size
  | "bud" :: msize :: toks -> run_bud msize toks
  | ["inj"; limit; _t0; klen; vlen; nt; tspec; kmax; npre] -> run_inj limit klen vlen nt tspec kmax npre
  | ["exh"; "consts"] ->
      String.concat " " (List.map string_of_n [sz_sso; sz_object; sz_pnode; sz_tnode; sz_lnode; sz_tlnode; sz_rbnode; sz_bucket])
  | "exh" :: kib :: limit :: t0 :: pct :: steps -> run_exh kib limit t0 pct steps
  | _ -> "BAD-CASE")
