(* C08 model driver: same line protocol as harness/C08_cache.cpp (mode seq) and harness/C08_buddy.cpp (mode bud) *)
let ten = n_of_int 10
let rec pos_bits = function XH -> 1 | XO p -> 1 + pos_bits p | XI p -> 1 + pos_bits p
let string_of_n n = match n with
  | N0 -> "0"
  | Npos p -> if pos_bits p <= 60 then string_of_int (int_of_n n) else begin
      let rec go n acc = if n = N0 then acc else let (q, r) = N.div_eucl n ten in go q (string_of_int (int_of_n r) ^ acc) in
      go n "" end
let n_of_string s =
  if String.length s <= 17 then n_of_int (int_of_string s)
  else begin
    let acc = ref N0 in
    String.iter (fun c -> acc := N.add (N.mul !acc ten) (n_of_int (Char.code c - 48))) s; !acc end
let z_of_string s =
  if String.length s > 0 && s.[0] = '-' then
    (match n_of_string (String.sub s 1 (String.length s - 1)) with N0 -> Z0 | Npos p -> Zneg p)
  else (match n_of_string s with N0 -> Z0 | Npos p -> Zpos p)
let string_of_z = function Z0 -> "0" | Zpos p -> string_of_n (Npos p) | Zneg p -> "-" ^ string_of_n (Npos p)

let value_of t =
  if String.length t > 0 && t.[0] = '#' then begin
    let x = String.index t 'x' in
    let len = int_of_string (String.sub t 1 (x - 1)) in
    let pre = bytes_of_hex (String.sub t (x + 1) (String.length t - x - 1)) in
    let n = List.length pre in
    let v = n_of_int 118 in
    let rec pad k acc = if k <= 0 then acc else pad (k - 1) (v :: acc) in
    pre @ pad (len - n) [] end
  else bytes_of_hex t
let valtok (v : n list) =
  let len = List.length v in
  if len <= 32 then hex_of_bytes v
  else begin
    let h = ref 0xcbf29ce484222325L and i = ref 0 and odd = ref 0 in
    List.iter (fun b ->
      if !i < 32 then h := Int64.mul (Int64.logxor !h (Int64.of_int (int_of_n b))) 0x100000001b3L
      else if int_of_n b <> 118 then incr odd;
      incr i) v;
    Printf.sprintf "#%d.%016Lx.%d" len !h !odd end
let trigs_of t = if t = "." then [] else List.map bytes_of_hex (String.split_on_char '+' t)
let trigtok (l : n list list) =
  if l = [] then "." else String.concat "+" (List.sort compare (List.map hex_of_bytes l))

let parse_op tok =
  match String.split_on_char ':' tok with
  | ["S"; k; v; tr; d; g] ->
      ("s", Store (bytes_of_hex k, value_of v, trigs_of tr, z_of_string d,
                   (if g = "-" then None else Some (n_of_string g)), FNone, []))
  | ["F"; k] -> ("f", Fetch (bytes_of_hex k))
  | ["R"; t] -> ("r", Rise (bytes_of_hex t))
  | ["D"; k] -> ("d", Remove (bytes_of_hex k))
  | ["C"] -> ("c", Clear)
  | ["T"; n] -> ("t", Tick (z_of_string n))
  | _ -> failwith "bad op"

let lrutok (l : n list list) = if l = [] then "." else String.concat "," (List.map hex_of_bytes l)

let run_seq lim t0 toks =
  let s = ref (init (n_of_string lim)) and now = ref (z_of_string t0) in
  let b = Buffer.create 1024 in
  List.iter (fun tok ->
    let (tag, o) = parse_op tok in
    let ((now1, s1), r) = step !now o !s in
    now := now1; s := s1;
    let (k, t) = stats s1 in
    let st = string_of_n k ^ "/" ^ string_of_n t ^ ":" ^ lrutok s1.lru in
    if Buffer.length b > 0 then Buffer.add_char b ' ';
    Buffer.add_string b (match r with
      | OHit (v, tr, d, g) -> "h:" ^ valtok v ^ ":" ^ trigtok tr ^ ":" ^ string_of_z d ^ ":" ^ string_of_n g ^ ":" ^ st
      | OMiss -> "m:" ^ st
      | ONone -> tag ^ ":" ^ st)) toks;
  let tt = if !s.timeout = [] then "-" else
    String.concat "," (List.map (fun (d, k) -> string_of_z d ^ "=" ^ hex_of_bytes k) !s.timeout) in
  if Buffer.length b > 0 then Buffer.add_char b ' ';
  Buffer.add_string b ("X:" ^ tt ^ ":ok");
  if !s.err then "FUEL" else Buffer.contents b

(* ---- buddy allocator ---- *)
let sixteen = n_of_int 16
let run_bud msize toks =
  let s = ref (b_init (n_of_string msize)) in
  let slots = ref [] (* newest first: (id, ptr option) *) and nslots = ref 0 in
  let b = Buffer.create 1024 in
  let tot () =
    let hb = ref (-1) in
    for bits = 0 to 63 do if !s.b_fl (n_of_int bits) <> [] then hb := bits done;
    ":" ^ string_of_n (total_free_memory !s) ^ ":" ^ string_of_n (max_free_chunk !s) ^ ":" ^ string_of_int !hb in
  (* keep the free-list function shallow: replace the chain of updates by a table with the same values (extensionally the same function) *)
  let compact () =
    let st = !s in
    let arr = Array.init 64 (fun i -> st.b_fl (n_of_int i)) in
    let old = st.b_fl in
    s := { st with b_fl = (fun b -> let i = int_of_n b in if i < 64 then arr.(i) else old b) } in
  let free_slot id =
    slots := List.map (fun (i, p) ->
      if i = id then (match p with Some ptr -> s := b_free ptr !s; (i, None) | None -> (i, None)) else (i, p)) !slots in
  List.iter (fun tok ->
    if Buffer.length b > 0 then Buffer.add_char b ' ';
    (match tok.[0] with
    | 'm' ->
        let req = n_of_string (String.sub tok 1 (String.length tok - 1)) in
        let (r, s1) = b_malloc req !s in
        s := s1;
        slots := (!nslots, r) :: !slots; incr nslots;
        Buffer.add_string b ((match r with Some p -> string_of_n p | None -> "-") ^ tot ())
    | 'f' ->
        free_slot (int_of_string (String.sub tok 1 (String.length tok - 1)));
        Buffer.add_string b ("f" ^ tot ())
    | 'A' -> List.iter (fun (i, _) -> free_slot i) (List.rev !slots); Buffer.add_string b ("f" ^ tot ())
    | 'Z' -> List.iter (fun (i, _) -> free_slot i) !slots; Buffer.add_string b ("f" ^ tot ())
    | _ -> Buffer.add_string b "BAD-OP");
    compact ()) toks;
  (* free lists *)
  let fl = ref [] in
  for bits = 63 downto 0 do
    match !s.b_fl (n_of_int bits) with
    | [] -> ()
    | l -> fl := (string_of_int bits ^ "=" ^ String.concat "," (List.map string_of_n l)) :: !fl
  done;
  Buffer.add_string b (" F:" ^ (if !fl = [] then "-" else String.concat ";" !fl));
  (* page walk *)
  let pages = ref [] and pos = ref N0 and go = ref true and guard = ref 0 in
  while !go && !guard < 10000000 do
    incr guard;
    match !s.b_hdr !pos with
    | None -> go := false
    | Some (bits, u) ->
        pages := (string_of_n !pos ^ "." ^ string_of_n bits ^ (if u then "u" else "f")) :: !pages;
        pos := N.add !pos (N.pow (n_of_int 2) bits)
  done;
  Buffer.add_string b (" P:" ^ (if !pages = [] then "-" else String.concat "," (List.rev !pages)));
  Buffer.add_string b (if !s.b_err then " T:MODEL-ERR" else " T:ok");
  Buffer.contents b

let () = main_loop (function
  | "seq" :: _backend :: lim :: t0 :: toks -> run_seq lim t0 toks
  | ["bud"; "consts"] ->
      string_of_n alignment_bits ^ " " ^ string_of_n alignment ^ " " ^ string_of_n page_in_use ^ " " ^ string_of_n self_size ^ " " ^ string_of_n page_header_size
  | "bud" :: msize :: toks -> run_bud msize toks
  | _ -> "BAD-CASE")
