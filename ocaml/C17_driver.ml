(* C17 model driver: same line protocol as harness/C17_loop.cpp *)
let code_name = function Ok -> "ok" | Canceled -> "can" | SelFailed -> "self" | EBadf -> "sys9" | SelErr -> "sys9"
let soi = string_of_int
let join l = if l = [] then "-" else String.concat "," l
let ni s = n_of_int (int_of_string s)
let nati s = nat_of_int (int_of_string s)

let parse_ops toks =
  (* returns (phases, bodies) *)
  let phases = ref [] and cur = ref [] and bodies = ref [] and inbody = ref None in
  let flush_phase () = phases := List.rev !cur :: !phases; cur := [] in
  let flush_body () = (match !inbody with Some k -> bodies := (k, List.rev !cur) :: !bodies | None -> ()); cur := []; inbody := None in
  let rec go = function
    | [] -> ()
    | "/" :: r -> flush_phase (); go r
    | "[" :: k :: r -> (if !inbody = None then flush_phase ()); inbody := Some (ni k); cur := []; go r
    | "]" :: r -> flush_body (); go r
    | "X" :: r -> cur := OX :: !cur; go r
    | "P" :: k :: r -> cur := OP (ni k) :: !cur; go r
    | "PI" :: k :: r -> cur := OP (ni k) :: !cur; go r
    | "PE" :: k :: r -> cur := OPE (ni k) :: !cur; go r
    | "CT" :: k :: r -> cur := OCT (ni k) :: !cur; go r
    | "CF" :: f :: r -> cur := OCF (nati f) :: !cur; go r
    | "CL" :: f :: r -> cur := OCL (nati f) :: !cur; go r
    | "W" :: f :: r -> cur := OW (nati f) :: !cur; go r
    | "R" :: f :: r -> cur := OR (nati f) :: !cur; go r
    | "F" :: f :: r -> cur := OF (nati f) :: !cur; go r
    | "D" :: f :: r -> cur := OD (nati f) :: !cur; go r
    | "K" :: f :: r -> cur := OK (nati f) :: !cur; go r
    | "A" :: d :: r -> cur := OA (ni d) :: !cur; go r
    | "T" :: k :: d :: r -> cur := OT (ni k, z_of_int (int_of_string d)) :: !cur; go r
    | "U" :: k :: d :: r -> cur := OU (ni k, z_of_int (int_of_string d)) :: !cur; go r
    | "RS" :: k :: f :: r -> cur := ORS (ni k, nati f) :: !cur; go r
    | "WS" :: k :: f :: r -> cur := OWS (ni k, nati f) :: !cur; go r
    | "RA" :: k :: f :: n :: r -> cur := ORA (ni k, nati f, ni n) :: !cur; go r
    | "WA" :: k :: f :: n :: r -> cur := OWA (ni k, nati f, ni n) :: !cur; go r
    | "RO" :: f :: r -> cur := ORO (nati f) :: !cur; go r
    | "RL" :: f :: r -> cur := ORL (nati f) :: !cur; go r
    | "AT" :: f :: r -> cur := OAT (nati f) :: !cur; go r
    | "AS" :: f :: r -> cur := OAS (nati f) :: !cur; go r
    | "TO" :: k :: ob :: d :: r -> cur := OTO (ni k, ni ob, z_of_int (int_of_string d)) :: !cur; go r
    | "CO" :: ob :: r -> cur := OCO (ni ob) :: !cur; go r
    | "I" :: k :: f :: r -> cur := OI (ni k, nati f) :: !cur; go r
    | "O" :: k :: f :: r -> cur := OO (ni k, nati f) :: !cur; go r
    | _ -> failwith "bad op" in
  go toks;
  (* the phase being built when the first body starts (or at the end) *)
  (if !inbody = None && (!cur <> [] || true) then begin
     (* if no body was ever opened the last phase is still in cur *)
     () end);
  (!phases, !bodies, !cur, !inbody)

let loop_case toks =
  match toks with
  | r :: pick :: nfd :: ops ->
    let rk = (match r with "e" -> REpoll | "p" -> RPoll | _ -> RSelect) in
    let (phases_rev, bodies, cur, inbody) = parse_ops ops in
    let has_body = List.exists (fun t -> t = "[") ops in
    let phases = List.rev (if has_body then phases_rev else (List.rev cur :: phases_rev)) in
    let (x, fin) = run_script (nat_of_int 30000) rk (String.length pick > 0 && pick.[0] = 'h') (String.length pick > 0 && pick.[0] = 'a') (nati nfd) phases bodies in
    let subs = List.map (fun (k, v) -> soi (int_of_n k) ^ ":" ^ (match v with
      | SP -> "p" | SPE -> "pe" | ST dl -> "t" ^ soi (int_of_n dl) | SI f -> "i" ^ soi (int_of_nat f) | SO f -> "o" ^ soi (int_of_nat f)
      | SRS f -> "r" ^ soi (int_of_nat f) | SWS f -> "w" ^ soi (int_of_nat f)
      | SRA (f, n) -> "R" ^ soi (int_of_nat f) ^ "." ^ soi (int_of_n n) | SWA (f, n) -> "W" ^ soi (int_of_nat f) ^ "." ^ soi (int_of_n n))) x.sout in
    let base_name n = (match n with 0 -> "ok" | 1 -> "can" | 2 -> "self" | 3 -> "sys9" | 4 -> "eof" | 5 -> "sys32" | _ -> "?") in
    let num_name n = (let v = int_of_n n in if v < 10 then base_name v else base_name (v mod 10) ^ "/" ^ soi (v / 10 - 1)) in
    let log = List.map (fun ((h, c), t) -> soi (int_of_n h) ^ ":" ^ num_name c ^ "@" ^ soi (int_of_n t)) x.olog in
    let cans = List.map (fun (k, t) -> soi (int_of_n k) ^ "@" ^ soi (int_of_n t)) x.tcans in
    "loop sub=" ^ join subs ^ " log=" ^ join log ^ " cancels=" ^ join cans ^ " flags=" ^ (if not fin then "FUEL" else if int_of_nat x.stage = 3 then "EXC-sys9" else "-") ^ " mode=" ^ pick
  | _ -> "loop BAD-CASE"

let pool_case toks =
  let rec parse = function
    | [] -> []
    | "P" :: k :: kd :: r -> QP (ni k, ni kd) :: parse r
    | "C" :: k :: r -> QC (ni k) :: parse r
    | "G" :: k :: r -> QG (ni k) :: parse r
    | "S" :: r -> QS :: parse r
    | _ -> failwith "bad pool op" in
  let x = run_pool_script (nat_of_int 2000) (parse toks) in
  let run = List.map (fun j -> soi (int_of_n j)) x.pp.plog in
  let cres = List.map (fun (k, r) -> soi (int_of_n k) ^ ":" ^ soi (int_of_n r)) x.pcres in
  let stopn = (match x.pstopn with Some n -> soi (int_of_n n) | None -> "-") in
  "pool run=" ^ join run ^ " cancel=" ^ join cres ^ " stop=" ^ stopn ^ " flags=-"

let () = main_loop (function
  | "loop" :: r -> loop_case r
  | "pool" :: r -> pool_case r
  | "pstress" :: _ -> "pstress ok"
  | "pstop" :: _ -> "pstop ok"
  | "lstress" :: _ -> "lstress ok"
  | _ -> "BAD-CASE")
