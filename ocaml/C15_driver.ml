(* the pieces a value is streamed in: same cutting as cut() of harness/C15_codecs.cpp *)
let cut_pieces (l : n list) (cuts : string) : n list list =
  let a = Array.of_list l in
  let n = Array.length a in
  let pos = ref 0 in
  let ps = List.map (fun t -> let k = Stdlib.min (int_of_string t) (n - !pos) in
                              let p = Array.to_list (Array.sub a !pos k) in pos := !pos + k; p)
             (String.split_on_char ',' cuts) in
  ps @ [Array.to_list (Array.sub a !pos (n - !pos))]
(* FORM_KINDS of checks/C15.py, same order: the position is the kind number of Defs.widget_ctx *)
let form_kinds = ["text_value"; "text_value_input"; "textarea_value"; "hidden_value"; "message"; "help"; "error_message";
                  "checkbox_ident"; "submit_value"; "select_id"; "select_text"; "select_tr_text"; "multi_id"; "multi_text";
                  "multi_tr_text"; "radio_id"; "radio_text"; "radio_tr_text"; "message_label"]
let kind_index k = let rec go i = function [] -> 99 | x :: r -> if x = k then i else go (i+1) r in go 0 form_kinds
(* sink spec of the harness: B<room> A<budget> K<k> T P<k>.<m> *)
let sink_of (sp : string) =
  let num s = nat_of_int (int_of_string s) in
  let rest = String.sub sp 1 (String.length sp - 1) in
  match sp.[0] with
  | 'B' -> SBounded (num rest) | 'A' -> SAllOrNothing (num rest) | 'K' -> SKthFails (num rest) | 'T' -> SAlternate
  | 'P' -> (match String.split_on_char '.' rest with [k; m] -> SPartial (num k, num m) | _ -> failwith "spec")
  | _ -> failwith "spec"
let () = main_loop (function
  | ["esc"; h] -> "esc " ^ hex_of_bytes (escape (bytes_of_hex h))
  | ["escs"; room; h] ->
      let (o, ok) = escape_stream (nat_of_int (int_of_string room)) (bytes_of_hex h) in
      "escs " ^ hex_of_bytes o ^ " " ^ string_of_bool ok
  | ["uencs"; room; h] ->
      let (o, ok) = urlencode_stream (nat_of_int (int_of_string room)) (bytes_of_hex h) in
      "uencs " ^ hex_of_bytes o ^ " " ^ string_of_bool ok
  | ["uenc"; h] -> "uenc " ^ hex_of_bytes (urlencode (bytes_of_hex h))
  | ["udec"; h] -> "udec " ^ hex_of_bytes (urldecode (bytes_of_hex h))
  | ["benc"; h] -> "benc " ^ hex_of_bytes (encode_str (bytes_of_hex h))
  | ["bdec"; h] -> (match decode_str (bytes_of_hex h) with None -> "bdec invalid" | Some o -> "bdec " ^ hex_of_bytes o ^ " c=" ^ string_of_bool (b64_canonical (bytes_of_hex h)))
  | ["bdecp"; h] -> "bdecp " ^ hex_of_bytes (b64decode (bytes_of_hex h))
  | ["pcs"; "esc"; cuts; h] -> "pcs " ^ hex_of_bytes (filter_escape (cut_pieces (bytes_of_hex h) cuts))
  | ["pcs"; "uenc"; cuts; h] -> "pcs " ^ hex_of_bytes (filter_urlencode (cut_pieces (bytes_of_hex h) cuts))
  | ["pcs"; "benc"; cuts; h] -> "pcs " ^ hex_of_bytes (filter_base64 (cut_pieces (bytes_of_hex h) cuts))
  | ["pcsf"; op; room; cuts; h] ->
      let ps = cut_pieces (bytes_of_hex h) cuts and r = nat_of_int (int_of_string room) in
      let ((o, rel), st) = (match op with
         | "esc" -> (filter_escape_sink r ps, filter_escape_stream_ok r ps)
         | "uenc" -> (filter_urlencode_sink r ps, filter_urlencode_stream_ok r ps)
         | _ -> (filter_base64_sink r ps, filter_base64_stream_ok r ps)) in
      "pcsf " ^ hex_of_bytes o ^ " st=" ^ string_of_bool st ^ " rel=" ^ string_of_bool rel
  | ["strf"; _; _] -> "strf - st=0"   (* escape(b,e,ostream&) returns at once; ostream_iterator / write on a failed stream do nothing *)
  | ["escg"; sp; h] -> let (o, ok) = escape_gs (acc_of (sink_of sp)) (bytes_of_hex h) in "escg " ^ hex_of_bytes o ^ " " ^ string_of_bool ok
  | ["uencg"; sp; h] -> let (o, ok) = urlencode_gs (acc_of (sink_of sp)) (bytes_of_hex h) in "uencg " ^ hex_of_bytes o ^ " " ^ string_of_bool ok
  | ["pcsg"; op; sp; cuts; h] ->
      let ps = cut_pieces (bytes_of_hex h) cuts and a = acc_of (sink_of sp) in
      let ((o, st), rel) = (match op with "esc" -> fbg_run a r_escape ps | "uenc" -> fbg_run a r_urlencode ps | _ -> filter_base64_gs a ps) in
      "pcsg " ^ hex_of_bytes o ^ " st=" ^ string_of_bool st ^ " rel=" ^ string_of_bool rel
  | ["pcsb"; op; h] ->
      let v = bytes_of_hex h in
      let (o, st) = (match op with "esc" -> filter_on_failed_stream escape v | "uenc" -> filter_on_failed_stream urlencode v
                                 | _ -> filter_base64_on_failed_stream v) in
      "pcsb " ^ hex_of_bytes o ^ " st=" ^ string_of_bool st
  | ["formfull"; kind; mode; h] ->
      let k = n_of_int (kind_index kind) and m = n_of_int (int_of_string mode) in
      let ph = List.map (fun c -> byte_tab.(Char.code c)) (List.of_seq (String.to_seq "ZqPLACEHOLDERqZ")) in
      (match render_full k m (bytes_of_hex h), render_full k m ph with
       | Some r, Some r0 -> "formfull " ^ hex_of_bytes r ^ " " ^ hex_of_bytes r0 | _ -> "formfull unsupported")
  | ["form"; kind; _; h] -> "form " ^ hex_of_bytes (escape (bytes_of_hex h)) ^ " " ^
                            (match widget_ctx (n_of_int (kind_index kind)) with AttrDq -> "A" | ElemText -> "E")
  | ["esz"; n] -> "esz " ^ string_of_int (int_of_n (encoded_size (n_of_int (int_of_string n))))
  | ["dsz"; n] -> (match decoded_size (n_of_int (int_of_string n)) with None -> "dsz -1" | Some d -> "dsz " ^ string_of_int (int_of_n d))
  | _ -> "BAD-CASE")
