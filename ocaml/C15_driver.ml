let () = main_loop (function
  | ["esc"; h] -> "esc " ^ hex_of_bytes (escape (bytes_of_hex h))
  | ["escs"; room; h] ->
      let (o, ok) = escape_stream (nat_of_int (int_of_string room)) (bytes_of_hex h) in
      "escs " ^ hex_of_bytes o ^ " " ^ string_of_bool ok
  | ["uenc"; h] -> "uenc " ^ hex_of_bytes (urlencode (bytes_of_hex h))
  | ["udec"; h] -> "udec " ^ hex_of_bytes (urldecode (bytes_of_hex h))
  | ["benc"; h] -> "benc " ^ hex_of_bytes (encode_str (bytes_of_hex h))
  | ["bdec"; h] -> (match decode_str (bytes_of_hex h) with None -> "bdec invalid" | Some o -> "bdec " ^ hex_of_bytes o)
  | ["bdecp"; h] -> "bdecp " ^ hex_of_bytes (b64decode (bytes_of_hex h))
  | ["pcs"; "esc"; _; h] -> "pcs " ^ hex_of_bytes (escape (bytes_of_hex h))
  | ["pcs"; "uenc"; _; h] -> "pcs " ^ hex_of_bytes (urlencode (bytes_of_hex h))
  | ["pcs"; "benc"; _; h] -> "pcs " ^ hex_of_bytes (encode_str (bytes_of_hex h))
  | ["form"; _; _; h] -> "form " ^ hex_of_bytes (escape (bytes_of_hex h))
  | ["esz"; n] -> "esz " ^ string_of_int (int_of_n (encoded_size (n_of_int (int_of_string n))))
  | ["dsz"; n] -> (match decoded_size (n_of_int (int_of_string n)) with None -> "dsz -1" | Some d -> "dsz " ^ string_of_int (int_of_n d))
  | _ -> "BAD-CASE")
