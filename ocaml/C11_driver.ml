(* C11 model driver: same case language and answer format as harness/C11_json.cpp.
   The three conversions the model is parametric in are supplied here from the platform:
   to_double = strtod on the accumulated text (finite results only), print16 = printf %.16g,
   to_float = the hardware double->float conversion. *)
let rec pos_of_u64 (x : int64) = if x = 1L then XH else
  let r = pos_of_u64 (Int64.shift_right_logical x 1) in
  if Int64.logand x 1L = 1L then XI r else XO r
let n_of_u64 x = if x = 0L then N0 else Npos (pos_of_u64 x)
let rec u64_of_pos = function XH -> 1L | XO p -> Int64.shift_left (u64_of_pos p) 1
  | XI p -> Int64.logor (Int64.shift_left (u64_of_pos p) 1) 1L
let u64_of_n = function N0 -> 0L | Npos p -> u64_of_pos p
let string_of_bytes (l : n list) = let b = Buffer.create 32 in List.iter (fun x -> Buffer.add_char b (Char.chr (int_of_n x))) l; Buffer.contents b
let bytes_of_string (s : string) : n list = List.init (String.length s) (fun i -> byte_tab.(Char.code s.[i]))

(* hyp_violated: the platform conversion accepted a text outside strtod_dec, or rejected a text of strtod_dec whose
   value is finite (the Section hypothesis strtod_law of NumGrammar.v does not hold for this instantiation) *)
let hyp_violated = ref false
(* optional minus, then 0 or a non-zero digit followed by digits, at most 15 digits: an integer lexeme below 2^53 *)
let is_small_int_text (s : string) =
  let n = String.length s in
  let i = if n > 0 && s.[0] = '-' then 1 else 0 in
  let d = n - i in
  d >= 1 && d <= 15 && (d = 1 || s.[i] <> '0') &&
  (let ok = ref true in for j = i to n - 1 do if s.[j] < '0' || s.[j] > '9' then ok := false done; !ok)
let to_double (x : n list) : n option =
  let syn = strtod_dec x in
  let s = string_of_bytes x in
  let r = (match float_of_string_opt s with
    | Some f when Float.is_finite f -> if not syn then hyp_violated := true; Some (n_of_u64 (Int64.bits_of_float f))
    | Some _ -> None
    | None -> if syn then hyp_violated := true; None) in
  (* strtod_int_law of IntRound.v: on integer lexemes below 2^53 strtod is the concrete to_double_int *)
  if is_small_int_text s && r <> Some (to_double_int x) then hyp_violated := true;
  r
let print16 (b : n) : n list =
  let r = bytes_of_string (Printf.sprintf "%.16g" (Int64.float_of_bits (u64_of_n b))) in
  (* print_int_law of IntRound.v: on small integers the printer is the concrete print16_int *)
  if small_int b && print16_int b <> Some r then hyp_violated := true;
  r
let to_float (b : n) : n =
  n_of_u64 (Int64.logand (Int64.of_int32 (Int32.bits_of_float (Int64.float_of_bits (u64_of_n b)))) 0xFFFFFFFFL)

let rec dump b v = match v with
  | JUndef -> Buffer.add_char b 'U'
  | JNull -> Buffer.add_char b 'N'
  | JBool x -> Buffer.add_char b (if x then 'T' else 'F')
  | JNum x -> Buffer.add_string b (Printf.sprintf "D%016Lx" (u64_of_n x))
  | JStr s -> Buffer.add_char b 'S'; Buffer.add_string b (hex_of_bytes s)
  | JArr l -> Buffer.add_char b '['; List.iteri (fun i x -> if i > 0 then Buffer.add_char b ','; dump b x) l; Buffer.add_char b ']'
  | JObj m -> Buffer.add_char b '{';
      List.iteri (fun i (k, x) -> if i > 0 then Buffer.add_char b ','; Buffer.add_char b 'S'; Buffer.add_string b (hex_of_bytes k);
                                   Buffer.add_char b ':'; dump b x) m;
      Buffer.add_char b '}'
let dumps v = let b = Buffer.create 64 in dump b v; Buffer.contents b

(* tree notation -> value, objects through the model's map insertion *)
exception Bad
let build (s : string) : jv =
  let i = ref 0 in
  let n = String.length s in
  let hexrun () =
    let j = ref !i in
    while !j < n && (match s.[!j] with '0'..'9' | 'a'..'f' | '-' -> true | _ -> false) do incr j done;
    let r = bytes_of_hex (String.sub s !i (!j - !i)) in i := !j; r in
  let rec value () =
    if !i >= n then raise Bad;
    let c = s.[!i] in incr i;
    match c with
    | 'U' -> JUndef | 'N' -> JNull | 'T' -> JBool true | 'F' -> JBool false
    | 'D' -> let h = String.sub s !i 16 in i := !i + 16; JNum (n_of_u64 (Int64.of_string ("0x" ^ h)))
    | 'S' -> JStr (hexrun ())
    | '[' ->
        if !i < n && s.[!i] = ']' then (incr i; JArr []) else begin
          let acc = ref [] in
          let fin = ref false in
          while not !fin do
            acc := value () :: !acc;
            if !i >= n then raise Bad;
            (match s.[!i] with ',' -> incr i | ']' -> incr i; fin := true | _ -> raise Bad)
          done; JArr (List.rev !acc) end
    | '{' ->
        if !i < n && s.[!i] = '}' then (incr i; JObj []) else begin
          let acc = ref [] in
          let fin = ref false in
          while not !fin do
            if !i >= n || s.[!i] <> 'S' then raise Bad;
            incr i;
            let k = hexrun () in
            if !i >= n || s.[!i] <> ':' then raise Bad;
            incr i;
            let v = value () in
            acc := map_insert k v !acc;
            if !i >= n then raise Bad;
            (match s.[!i] with ',' -> incr i | '}' -> incr i; fin := true | _ -> raise Bad)
          done; JObj !acc end
    | _ -> raise Bad in
  let v = value () in
  if !i <> n then raise Bad; v

let sentinel = JObj [ (bytes_of_string "k", JArr [JNum (n_of_u64 0x3ff8000000000000L); JStr (bytes_of_string "x")]);
                      (bytes_of_string "z", JNull) ]

(* operator== of the library: the model's jv_eqb (ValueApi.v; numbers by IEEE equality on the bit patterns), cross-checked
   against the platform's float equality *)
let rec jeq_platform a b = match a, b with
  | JNum x, JNum y -> Int64.float_of_bits (u64_of_n x) = Int64.float_of_bits (u64_of_n y)
  | JArr l, JArr m -> List.length l = List.length m && List.for_all2 jeq_platform l m
  | JObj l, JObj m -> List.length l = List.length m && List.for_all2 (fun (k, x) (k', y) -> k = k' && jeq_platform x y) l m
  | JUndef, JUndef | JNull, JNull -> true
  | JBool x, JBool y -> x = y
  | JStr x, JStr y -> x = y
  | _, _ -> false
let jeq a b = let r = jv_eqb a b in if r <> jeq_platform a b then hyp_violated := true; r

let reload text refd =
  match parse to_double true text with
  | POk (v, _) -> let d = dumps v in ((if d = refd then "=" else d), Some v)
  | _ -> ("F", None)

let zs (z : z) = (* decimal of a Z that fits in 65 bits *)
  match z with
  | Z0 -> "0"
  | Zpos p -> Printf.sprintf "%Lu" (u64_of_pos p)
  | Zneg p -> "-" ^ Printf.sprintf "%Lu" (u64_of_pos p)
let rec zpow2 k = if k = 0 then Zpos XH else (match zpow2 (k - 1) with Zpos p -> Zpos (XO p) | z -> z)
let zneg = function Z0 -> Z0 | Zpos p -> Zneg p | Zneg p -> Zpos p
let zpred_pow2 k = (* 2^k - 1 *) let rec ones k = if k = 1 then XH else XI (ones (k - 1)) in Zpos (ones k)
let int_types = [ ("c", true, 8); ("uc", false, 8); ("sc", true, 8); ("wc", true, 32); ("s", true, 16); ("us", false, 16);
                  ("i", true, 32); ("u", false, 32); ("l", true, 64); ("ul", false, 64); ("ll", true, 64); ("ull", false, 64) ]

let () = main_loop (function
  | "p" :: full :: h :: _ ->
      let doc = bytes_of_hex h in
      let f = (full = "1") in
      hyp_violated := false;
      let res = parse to_double f doc in
      if !hyp_violated then "p MODEL-HYPOTHESIS-strtod_law-VIOLATED" else
      (match res with
       | POk (v, rest) ->
           let (ok, t) = load to_double sentinel f doc in
           if not ok || dumps t <> dumps v then "p MODEL-LOAD-INCONSISTENT" else
           Printf.sprintf "p ok %d %s" (List.length doc - List.length rest) (dumps v)
       | PFail line ->
           let (ok, t) = load to_double sentinel f doc in
           Printf.sprintf "p fail %d %d" (int_of_n line) (if (not ok) && dumps t = dumps sentinel then 1 else 0)
       | PFuel -> "p MODEL-OUT-OF-FUEL")
  | [("w" | "wd") as op; tr] ->
      let both = (op = "w") in
      hyp_violated := false;
      let ans = (match (try Some (build tr) with _ -> None) with
       | None -> op ^ " BAD-TREE"
       | Some v ->
         match save print16 false v, (if both then save print16 true v else Some []) with
         | Some c, Some r ->
             let refd = dumps v in
             let (rc, v1) = reload c refd in
             let rr = if both then fst (reload r refd) else "-" in
             let r2, eq = (match v1 with
               | None -> "-", "-"
               | Some v1 ->
                   let ref1 = dumps v1 in
                   let a = (match save print16 false v1 with Some t -> fst (reload t ref1) | None -> "T") in
                   let b = if both then (match save print16 true v1 with Some t -> fst (reload t ref1) | None -> "T") else a in
                   (if a = b then a else "LAYOUTS-DIFFER"), (if jeq v1 v then "1" else "0")) in
             Printf.sprintf "%s C=%s R=%s loc=1 rc=%s rr=%s r2=%s eq=%s" op (hex_of_bytes c) (if both then hex_of_bytes r else "-") rc rr r2 eq
         | _, _ -> op ^ " throw") in
      if !hyp_violated then op ^ " MODEL-HYPOTHESIS-VIOLATED (strtod_law / print_int_law / strtod_int_law)" else ans
  | ["g"; h] ->
      let b = n_of_u64 (Int64.of_string ("0x" ^ h)) in
      let ints = List.map (fun (nm, sg, w) ->
        let lo = if sg then zneg (zpow2 (w - 1)) else Z0 in
        let hi = if sg then zpred_pow2 (w - 1) else zpred_pow2 w in
        nm ^ "=" ^ (match get_int lo hi b with Some z -> zs z | None -> "X")) int_types in
      let f = (match get_float to_float b with Some x -> Printf.sprintf "%08Lx" (u64_of_n x) | None -> "X") in
      "g " ^ String.concat " " ints ^ " f=" ^ f ^ " d=" ^ Printf.sprintf "%016Lx" (u64_of_n b)
  | ["q"; h] -> "q " ^ hex_of_bytes (write_string (bytes_of_hex h))
  | _ -> "BAD-CASE")
