(* C06 model driver: same line protocol as harness/C06_sessions.cpp (see the grammar there) *)
let hexs (l : n list) = hex_of_bytes l
(* long byte strings (values / blobs at the codec bounds) are rendered as ~<length>~<crc32>, as the harness does *)
let crc_tab = Array.init 256 (fun i -> let c = ref i in for _ = 0 to 7 do c := if !c land 1 = 1 then 0xEDB88320 lxor (!c lsr 1) else !c lsr 1 done; !c)
let hexd (l : n list) =
  if List.compare_length_with l 4096 <= 0 then hexs l
  else begin
    let c = ref 0xFFFFFFFF and len = ref 0 in
    List.iter (fun x -> incr len; c := crc_tab.((!c lxor (int_of_n x)) land 0xFF) lxor (!c lsr 8)) l;
    Printf.sprintf "~%d~%d" !len (!c lxor 0xFFFFFFFF) end
(* pattern content: the first n bytes of a 64-byte unit repeated (see harness/C06_common.h:pattern) *)
let pattern_unit : int array =
  Array.of_list ([4;40;0;0] @ List.map Char.code ['r';'o';'l';'e';'a';'d';'m';'i';'n'] @ [3;12;0;0] @ List.map Char.code ['u';'i';'d';'0']
                 @ [1;48;1;0] @ [Char.code 'p'] @ List.init 38 (fun _ -> Char.code '.'))
let pattern (n : int) : n list =
  assert (Array.length pattern_unit = 64);
  let rec go i acc = if i < 0 then acc else go (i-1) (byte_tab.(pattern_unit.(i mod 64)) :: acc) in go (n-1) []
let zs z = string_of_int (int_of_z z)

let split_on_bar (toks : string list) : string list list =
  let rec go cur acc = function
    | [] -> List.rev (List.rev cur :: acc)
    | "|" :: r -> go [] (List.rev cur :: acc) r
    | x :: r -> go (x :: cur) acc r in
  go [] [] toks

let is_issued (next : int) (id : n list) : int option =
  let l = List.map int_of_n id in
  if List.length l <> 32 then None else begin
    let rec pref k = function [] -> None | x :: r -> if k = 0 then Some (x :: r) else if x = 102 then pref (k-1) r else None in
    match pref 16 l with
    | None -> None
    | Some tl ->
        let v = ref 0 and ok = ref true in
        List.iter (fun c -> let d = if c >= 48 && c <= 57 then c - 48 else if c >= 97 && c <= 102 then c - 87 else (ok := false; 0) in v := !v * 16 + d) tl;
        if !ok && !v < next then Some !v else None
  end

let render_id next id = match is_issued next id with Some i -> "#" ^ string_of_int i | None -> "=" ^ hexs id

let render_exp = function ESession -> "@s" | EAt t -> "@" ^ zs t

let render_jar next (j : jar) =
  let items = ref [] in
  (match j.j_sess with
   | None -> ()
   | Some (c, e) ->
       let v = match c with
         | CEnc (dl, d) -> "C:" ^ zs dl ^ ":" ^ hexd d
         | CRaw s ->
             (match s with
              | x :: id when int_of_n x = 73 && (match is_issued next id with Some _ -> true | None -> false) -> "I" ^ render_id next id
              | _ -> "raw:" ^ hexs s) in
       items := ("S=" ^ v ^ render_exp e) :: !items);
  List.iter (fun (k, (v, e)) -> items := ("x" ^ hexs k ^ "=" ^ hexs v ^ render_exp e) :: !items) j.j_exp;
  String.concat "," (List.rev !items)

let render_op next = function
  | OpS (id, dl, d) -> "S:" ^ render_id next id ^ ":" ^ zs dl ^ ":" ^ hexd d
  | OpL (id, f) -> "L:" ^ render_id next id ^ ":" ^ (if f then "1" else "0")
  | OpD id -> "D:" ^ render_id next id

let is_special k = List.mem (List.map int_of_n k) [[95;99;115;114;102]; [95;104]; [95;115]; [95;116]]
let render_data (m : dmap) =
  let ent (k, (v, e)) = hexs k ^ ":" ^ (if e then "1" else "0") ^ ":" ^ hexd v in
  let normal = List.filter (fun (k, _) -> match k with x :: _ when int_of_n x = 95 -> false | _ -> true) m in
  let spec = List.filter (fun (k, _) -> is_special k) m in
  String.concat "," (List.map ent (normal @ spec))

let parse_op (s : string) : scr =
  match String.split_on_char ':' s with
  | ["s"; k; v] -> Oset (bytes_of_hex k, bytes_of_hex v)
  | ["g"; k; n] -> Oset (bytes_of_hex k, pattern (int_of_string n))
  | ["gk"; n; v] -> Oset (pattern (int_of_string n), bytes_of_hex v)
  | ["gg"; n; m] -> Oset (pattern (int_of_string n), pattern (int_of_string m))
  | ["e"; k] -> Oerase (bytes_of_hex k)
  | ["c"] -> Oclear
  | ["x"; k] -> Oexpose (bytes_of_hex k)
  | ["h"; k] -> Ohide (bytes_of_hex k)
  | ["a"; n] -> Oage (z_of_int (int_of_string n))
  | ["da"] -> Odefage
  | ["p"; n] -> Ohow (z_of_int (int_of_string n))
  | ["dp"] -> Odefhow
  | ["o"; b] -> Oonsrv (b = "1")
  | ["r"] -> Oreset
  | _ -> failwith "op"

let parse_mut = function "id" -> Mid | "flip" -> Mflip | "trunc" -> Mtrunc | "ext" -> Mext | "upper" -> Mupper | "path" -> Mpath | _ -> failwith "mut"

let bytes_of_ascii (s : string) : n list = List.init (String.length s) (fun i -> n_of_int (Char.code s.[i]))

let run_case (toks : string list) : string =
  match split_on_bar toks with
  | [] -> "BAD-CASE"
  | cfgt :: steps ->
      let get k = let p = k ^ "=" in
        let l = String.length p in
        let rec f = function [] -> failwith "cfg" | x :: r -> if String.length x >= l && String.sub x 0 l = p then String.sub x l (String.length x - l) else f r in f cfgt in
      let loc = match get "loc" with "S" -> 0 | "C" -> 1 | _ -> 2 in
      let how = match get "exp" with "F" -> 0 | "R" -> 1 | _ -> 2 in
      let c = { c_loc = n_of_int loc; c_how = z_of_int how; c_timeout = z_of_int (int_of_string (get "to")); c_limit = n_of_int (int_of_string (get "lim")) } in
      let w = ref world0 in
      let known : n list list ref = ref [] in
      let b = Buffer.create 1024 in
      Buffer.add_string b "hist";
      List.iter (fun st ->
        if st <> [] then begin
          Buffer.add_string b " | ";
          let step = match st with
            | ["T"; dt] -> StT (z_of_int (int_of_string dt))
            | "R" :: br :: ops -> StR (nat_of_int (int_of_string br), List.map parse_op ops)
            | ["A"; br; "raw"; h] -> StAraw (nat_of_int (int_of_string br), bytes_of_hex h)
            | ["A"; br; "hist"; i; m] -> StAhist (nat_of_int (int_of_string br), nat_of_int (int_of_string i), parse_mut m)
            | ["X"; br; k; v] -> StX (nat_of_int (int_of_string br), bytes_of_hex k, bytes_of_hex v)
            | ["P"; br; id; dl; blob] -> StP (nat_of_int (int_of_string br), bytes_of_ascii id, z_of_int (int_of_string dl), bytes_of_hex blob)
            | _ -> failwith "step" in
          let next0 = int_of_n (!w).w_next in
          let wold = !w in
          let (w', o) = do_step fresh_hex c !w step in
          w := w';
          let next = int_of_n w'.w_next in
          for i = next0 to next - 1 do known := !known @ [fresh_hex (n_of_int i)] done;
          (match step with
           | StP (_, id, _, _) when loc <> 1 -> if not (List.mem id !known) then known := !known @ [id]
           | _ -> ());
          match step, o with
          | StT _, _ -> Buffer.add_string b "T"
          | StAraw _, _ | StAhist _, _ -> Buffer.add_string b "A"
          | StX _, _ -> Buffer.add_string b "X"
          | StP _, _ -> Buffer.add_string b "P"
          | StR (br, script), Some o ->
              Buffer.add_string b "R";
              (match o.o_loaded with
               | Some ((((ld, d), t), h), srv) ->
                   Buffer.add_string b (Printf.sprintf " ld=%d d=[%s] age=%s how=%s srv=%d" (if ld then 1 else 0) (render_data d) (zs t) (zs h) (if srv then 1 else 0))
               | None -> ());
              (match o.o_exc with
               | Some ExcCppcms -> Buffer.add_string b " EXC:cppcms"
               | Some ExcCast -> Buffer.add_string b " EXC:cast"
               | None -> ());
              Buffer.add_string b (" ops=[" ^ String.concat "," (List.map (render_op next) o.o_log) ^ "]");
              Buffer.add_string b (" jar=[" ^ render_jar next (get_jar w' br) ^ "]");
              (* deletion cookies (Max-Age=0) emitted for exposed-value cookie names, as a sorted set of keys *)
              Buffer.add_string b (" del=[" ^ String.concat "," (List.map hexs (request_dels fresh_hex c wold br script)) ^ "]");
              let alive = List.filter_map (fun id -> match st_load w'.w_now id w'.w_store with
                                                     | Some (dl, _) -> Some (render_id next id ^ ":" ^ zs dl) | None -> None) !known in
              Buffer.add_string b (" alive=[" ^ String.concat "," alive ^ "]")
          | StR _, None -> Buffer.add_string b "R?"
        end) steps;
      Buffer.contents b

let () = main_loop (function
  | "hist" :: rest -> run_case rest
  | _ -> "BAD-CASE")
