let grid_vals = [0x00; 0x7F; 0x80; 0xBF; 0xC0; 0xFF]
let fmt_res (total : int) ((r, rest) : dres * n list) : string =
  let k = total - List.length rest in
  match r with
  | Illegal -> Printf.sprintf "i%d" k
  | Incomplete -> Printf.sprintf "n%d" k
  | Cp c -> Printf.sprintf "%x:%d" (int_of_n c) k
let three (l : int list) : string =
  let bl = List.map (fun b -> byte_tab.(b)) l in
  let n = List.length l in
  fmt_res n (cppcms_next false bl) ^ "/" ^ fmt_res n (cppcms_next true bl) ^ "/" ^ fmt_res n (booster_decode bl)
let ints_of_hex h = List.map int_of_n (bytes_of_hex h)
let bits (v : bool list) : string =
  let b = Buffer.create 64 in
  let rec go = function
    | a :: b1 :: c :: d :: r ->
        let x = (if a then 8 else 0) + (if b1 then 4 else 0) + (if c then 2 else 0) + (if d then 1 else 0) in
        Buffer.add_char b "0123456789abcdef".[x]; go r
    | [] -> ()
    | _ -> failwith "bits" in
  go v; Buffer.contents b
let units_of_hex h =
  if h = "-" then [] else
  List.init (String.length h / 4) (fun i -> n_of_int (int_of_string ("0x" ^ String.sub h (4 * i) 4)))
let hex_of_units l = if l = [] then "-" else String.concat "" (List.map (fun u -> Printf.sprintf "%04x" (int_of_n u)) l)
let range256 = List.init 256 (fun i -> i)
let named_ok name l = match valid_named name l N0 with NRes (ok, _) -> ok | _ -> failwith "fallback"
(* valid_named = lookup + tester; for the 256/513-fold cases the lookup is done once per line *)
let named_ok_fn name =
  match lookup name with
  | None -> failwith "fallback"
  | Some v -> (fun l -> match tester v l N0 with Some (ok, _) -> ok | None -> failwith "fuel")
let () = main_loop (function
  | ["nx"; h] -> "nx " ^ three (ints_of_hex h)
  | ["grid"; a; b] ->
      let a = int_of_string ("0x" ^ a) and b = int_of_string ("0x" ^ b) in
      let l2 = [three [a; b]] in
      let l3 = List.map (fun c -> three [a; b; c]) grid_vals in
      let l4 = List.concat_map (fun c -> List.map (fun d -> three [a; b; c; d]) grid_vals) grid_vals in
      "grid " ^ String.concat "," (l2 @ l3 @ l4)
  | ["val"; html; c0; h] ->
      let html = (html = "1") in
      let l = bytes_of_hex h in
      (match validate_count html l (n_of_int (int_of_string c0)) with
       | VOk n -> if validate html l then Printf.sprintf "val 1 %d" (int_of_n n) else "val MODEL-INCONSISTENT"
       | VBad n -> if validate html l then "val MODEL-INCONSISTENT" else Printf.sprintf "val 0 %d" (int_of_n n)
       | VFuel -> "val MODEL-OUT-OF-FUEL")
  | ["vu8"; c0; h] ->
      (match validate_count true (bytes_of_hex h) (n_of_int (int_of_string c0)) with
       | VOk n -> Printf.sprintf "vu8 1 %d" (int_of_n n)
       | VBad n -> Printf.sprintf "vu8 0 %d" (int_of_n n)
       | VFuel -> "vu8 MODEL-OUT-OF-FUEL")
  | ["vnm"; name; c0; h] ->
      (match valid_named (bytes_of_hex name) (bytes_of_hex h) (n_of_int (int_of_string c0)) with
       | NRes (ok, n) -> Printf.sprintf "vnm %d %d" (if ok then 1 else 0) (int_of_n n)
       | NFallback -> "vnm MODEL-FALLBACK"
       | NFuel -> "vnm MODEL-OUT-OF-FUEL")
  | ["sb1"; name] ->
      let nm = bytes_of_hex name in
      let f = named_ok_fn nm in
      if named_ok nm [byte_tab.(65)] <> f [byte_tab.(65)] then "sb1 MODEL-INCONSISTENT" else
      "sb1 " ^ bits (List.map (fun b -> f [byte_tab.(b)]) range256)
  | ["sb2"; name; a] ->
      let nm = bytes_of_hex name in
      let a = byte_tab.(int_of_string ("0x" ^ a)) in
      let f = named_ok_fn nm in
      "sb2 " ^ bits (List.map (fun b -> f [a; byte_tab.(b)]) range256)
      ^ (if named_ok nm [a] then " 1 " else " 0 ") ^ bits (List.map (fun b -> f [byte_tab.(b)]) range256)
  | ["enc"; cp] ->
      let c = n_of_int (int_of_string ("0x" ^ cp)) in
      Printf.sprintf "enc %s %d" (hex_of_bytes (encode c)) (int_of_z (width c))
  | ["flt"; name; repl; h] ->
      (match validate_or_filter (bytes_of_hex name) (n_of_int (int_of_string ("0x" ^ repl))) (bytes_of_hex h) with
       | FValid -> "flt valid"
       | FFiltered o -> "flt filtered " ^ hex_of_bytes o
       | FFallback -> "flt MODEL-FALLBACK"
       | FFuel -> "flt MODEL-OUT-OF-FUEL")
  | ["frm"; loc; low; high; cs; h] ->
      (* the encoding of a locale name lang_COUNTRY.encoding@variant is the part between the dot and the at sign; none: us-ascii *)
      let l = ints_of_hex loc in
      let rec after_dot = function [] -> None | 46 :: r -> Some r | _ :: r -> after_dot r in
      let rec upto_at = function [] -> [] | 64 :: _ -> [] | x :: r -> x :: upto_at r in
      let enc = match after_dot l with Some r -> upto_at r | None -> [117;115;45;97;115;99;105;105] in
      let enc = List.map (fun b -> byte_tab.(b)) enc in
      let v = bytes_of_hex h in
      (match text_load (cs = "1") enc v, text_widget (cs = "1") enc v (z_of_int (int_of_string low)) (z_of_int (int_of_string high)) with
       | Some (ok, _), Some r -> Printf.sprintf "frm %d %d %s" (if r then 1 else 0) (if ok then 1 else 0) (hex_of_bytes v)
       | _ -> "frm MODEL-FALLBACK")
  | "fls" :: name :: repl :: hs ->
      let nm = bytes_of_hex name and rp = n_of_int (int_of_string ("0x" ^ repl)) in
      let o = ref (byte_tab.(1) :: bytes_of_hex "756e746f7563686564") in
      "fls" ^ String.concat "" (List.map (fun h ->
        match validate_or_filter nm rp (bytes_of_hex h) with
        | FValid -> " v:" ^ hex_of_bytes !o
        | FFiltered x -> o := x; " f:" ^ hex_of_bytes x
        | _ -> " MODEL-FALLBACK") hs)
  | ["dv"; h] ->
      let l = bytes_of_hex h in
      let (c, r) = decode_valid l in
      Printf.sprintf "dv %x:%d" (int_of_n c) (List.length l - List.length r)
  | ["cmp"; name] -> (match lookup (bytes_of_hex name) with Some _ -> "cmp 1" | None -> "cmp 0")
  | ["u2u"; h] ->
      let l = bytes_of_hex h in
      let f stop = match utf_to_utf stop l with
        | Some (Some o) -> hex_of_bytes o | Some None -> "throw" | None -> "MODEL-OUT-OF-FUEL" in
      "u2u " ^ f false ^ " " ^ f true
  | ["d16"; h] ->
      let l = units_of_hex h in
      "d16 " ^ fmt_res (List.length l) (u16_decode l)
  | ["e16"; cp] ->
      let c = n_of_int (int_of_string ("0x" ^ cp)) in
      Printf.sprintf "e16 %s %d" (hex_of_units (u16_encode c)) (int_of_z (u16_width c))
  | ["c816"; h] ->
      let l = bytes_of_hex h in
      let f stop = match utf8_to_utf16 stop l with
        | Some (Some o) -> hex_of_units o | Some None -> "throw" | None -> "MODEL-OUT-OF-FUEL" in
      "c816 " ^ f false ^ " " ^ f true
  | ["c168"; h] ->
      let l = units_of_hex h in
      let f stop = match utf16_to_utf8 stop l with
        | Some (Some o) -> hex_of_bytes o | Some None -> "throw" | None -> "MODEL-OUT-OF-FUEL" in
      "c168 " ^ f false ^ " " ^ f true
  | "seq" :: loc :: ops ->
      (* one form object with three text widgets living across several loads; see harness/C14_form.cpp *)
      let l = ints_of_hex loc in
      let rec after_dot = function [] -> None | 46 :: r -> Some r | _ :: r -> after_dot r in
      let rec upto_at = function [] -> [] | 64 :: _ -> [] | x :: r -> x :: upto_at r in
      let enc = match after_dot l with Some r -> upto_at r | None -> [117;115;45;97;115;99;105;105] in
      let enc = List.map (fun b -> byte_tab.(b)) enc in
      let st = Array.make 3 w_fresh in
      let out = Buffer.create 64 in
      Buffer.add_string out "seq";
      let step i op = match wstep st.(i) op with Some s' -> st.(i) <- s' | None -> raise Exit in
      let split_on c s = String.split_on_char c s in
      (try
        List.iter (fun op ->
          let c = op.[0] in
          let idx () = Char.code op.[1] - 48 in
          let arg () = String.sub op 3 (String.length op - 3) in
          match c with
          | 'L' ->
              let fs = split_on ',' (String.sub op 1 (String.length op - 1)) in
              List.iteri (fun i f -> if i < 3 then
                let req = if String.length f > 0 && f.[0] = '=' then Some (bytes_of_hex (let h = String.sub f 1 (String.length f - 1) in if h = "" then "-" else h)) else None in
                step i (OLoad (true, enc, req))) fs
          | 'C' -> for i = 0 to 2 do step i OClear done
          | 'c' -> step (idx ()) OClear
          | 'S' -> step (idx ()) (OSetValue (bytes_of_hex (let h = arg () in if h = "" then "-" else h)))
          | 'M' -> (match split_on ':' (arg ()) with
                    | [a; b] -> step (idx ()) (OLimits (z_of_int (int_of_string a), z_of_int (int_of_string b)))
                    | _ -> failwith "M")
          | 'H' -> step (idx ()) (OCharset (op.[3] = '1'))
          | 'V' ->
              Buffer.add_string out " V";
              for i = 0 to 2 do
                let (b, s') = wvalidate st.(i) in st.(i) <- s'; Buffer.add_char out (if b then '1' else '0')
              done
          | 'F' ->
              let r = ref true in
              for i = 0 to 2 do let (b, s') = wvalidate st.(i) in st.(i) <- s'; if not b then r := false done;
              Buffer.add_string out (if !r then " F1" else " F0")
          | 'G' ->
              Buffer.add_string out " G";
              for i = 0 to 2 do
                if i > 0 then Buffer.add_char out ',';
                (match wget st.(i) with Some v -> Buffer.add_string out (hex_of_bytes v) | None -> Buffer.add_char out '!')
              done
          | 'N' ->
              (match split_on ':' (String.sub op 1 (String.length op - 1)) with
               | [_fill; a; b] ->
                   (* the constructor initialises code_points_: what the memory held before does not matter *)
                   (match wstep w_fresh (OLimits (z_of_int (int_of_string a), z_of_int (int_of_string b))) with
                    | Some s0 -> Buffer.add_string out (if fst (wvalidate s0) then " N1" else " N0")
                    | None -> raise Exit)
               | _ -> failwith "N")
          | _ -> failwith "op") ops;
        Buffer.contents out
      with Exit -> "seq MODEL-FALLBACK")
  | _ -> "BAD-CASE")
