(* C07/C08 model driver: same line protocol as harness/C07_cache.cpp (mode seq) *)
let ten = n_of_int 10
let rec pos_bits = function XH -> 1 | XO p -> 1 + pos_bits p | XI p -> 1 + pos_bits p
let string_of_n n = match n with
  | N0 -> "0"
  | Npos p -> if pos_bits p <= 60 then string_of_int (int_of_n n) else begin
      let rec go n acc = if n = N0 then acc else let (q, r) = N.div_eucl n ten in go q (string_of_int (int_of_n r) ^ acc) in
      go n "" end
let n_of_string s =
  if String.length s <= 17 then n_of_int (int_of_string s)
  else begin
    let acc = ref N0 in
    String.iter (fun c -> acc := N.add (N.mul !acc ten) (n_of_int (Char.code c - 48))) s; !acc end
let z_of_string s =
  if String.length s > 0 && s.[0] = '-' then
    (match n_of_string (String.sub s 1 (String.length s - 1)) with N0 -> Z0 | Npos p -> Zneg p)
  else (match n_of_string s with N0 -> Z0 | Npos p -> Zpos p)
let string_of_z = function Z0 -> "0" | Zpos p -> string_of_n (Npos p) | Zneg p -> "-" ^ string_of_n (Npos p)

let value_of t =
  if String.length t > 0 && t.[0] = '#' then begin
    let x = String.index t 'x' in
    let len = int_of_string (String.sub t 1 (x - 1)) in
    let pre = bytes_of_hex (String.sub t (x + 1) (String.length t - x - 1)) in
    let n = List.length pre in
    let v = n_of_int 118 in
    let rec pad k acc = if k <= 0 then acc else pad (k - 1) (v :: acc) in
    pre @ pad (len - n) [] end
  else bytes_of_hex t
let valtok (v : n list) =
  let len = List.length v in
  if len <= 32 then hex_of_bytes v
  else begin
    let h = ref 0xcbf29ce484222325L in
    List.iter (fun b -> h := Int64.mul (Int64.logxor !h (Int64.of_int (int_of_n b))) 0x100000001b3L) v;
    Printf.sprintf "#%d.%016Lx" len !h end
let trigs_of t = if t = "." then [] else List.map bytes_of_hex (String.split_on_char '+' t)
let trigtok (l : n list list) =
  if l = [] then "." else String.concat "+" (List.sort compare (List.map hex_of_bytes l))

let parse_op tok =
  match String.split_on_char ':' tok with
  | ["S"; k; v; tr; d; g] ->
      ("s", Store (bytes_of_hex k, value_of v, trigs_of tr, z_of_string d,
                   (if g = "-" then None else Some (n_of_string g)), FNone, []))
  | ["F"; k] -> ("f", Fetch (bytes_of_hex k))
  | ["R"; t] -> ("r", Rise (bytes_of_hex t))
  | ["D"; k] -> ("d", Remove (bytes_of_hex k))
  | ["C"] -> ("c", Clear)
  | ["T"; n] -> ("t", Tick (z_of_string n))
  | _ -> failwith "bad op"

let () = main_loop (function
  | "seq" :: _backend :: lim :: t0 :: toks ->
      let ops = List.map parse_op toks in
      let ((_, s), answers) = run (z_of_string t0) (List.map snd ops) (init (n_of_string lim)) in
      if s.err then "FUEL" else
      String.concat " " (List.map2 (fun (tag, _) (o, (k, t)) ->
        let st = string_of_n k ^ "/" ^ string_of_n t in
        match o with
        | OHit (v, tr, d, g) -> "h:" ^ valtok v ^ ":" ^ trigtok tr ^ ":" ^ string_of_z d ^ ":" ^ string_of_n g ^ ":" ^ st
        | OMiss -> "m:" ^ st
        | ONone -> tag ^ ":" ^ st) ops answers)
  | _ -> "BAD-CASE")
