(* C07/C08 model driver: same line protocol as harness/C07_cache.cpp (mode seq) *)
let ten = n_of_int 10
let rec pos_bits = function XH -> 1 | XO p -> 1 + pos_bits p | XI p -> 1 + pos_bits p
let string_of_n n = match n with
  | N0 -> "0"
  | Npos p -> if pos_bits p <= 60 then string_of_int (int_of_n n) else begin
      let rec go n acc = if n = N0 then acc else let (q, r) = N.div_eucl n ten in go q (string_of_int (int_of_n r) ^ acc) in
      go n "" end
let n_of_string s =
  if String.length s <= 17 then n_of_int (int_of_string s)
  else begin
    let acc = ref N0 in
    String.iter (fun c -> acc := N.add (N.mul !acc ten) (n_of_int (Char.code c - 48))) s; !acc end
let z_of_string s =
  if String.length s > 0 && s.[0] = '-' then
    (match n_of_string (String.sub s 1 (String.length s - 1)) with N0 -> Z0 | Npos p -> Zneg p)
  else (match n_of_string s with N0 -> Z0 | Npos p -> Zpos p)
let string_of_z = function Z0 -> "0" | Zpos p -> string_of_n (Npos p) | Zneg p -> "-" ^ string_of_n (Npos p)

let big_tokens : (string, n list) Hashtbl.t = Hashtbl.create 16
let rec value_of t =
  if String.length t > 0 && t.[0] = '#' && String.length t <= 24
     && int_of_string (String.sub t 1 (String.index t 'x' - 1)) > 4096 then begin
    (* the few long names / values of a run are built once and shared (lists are immutable) *)
    match Hashtbl.find_opt big_tokens t with
    | Some v -> v
    | None -> let v = value_of_raw t in if Hashtbl.length big_tokens < 64 then Hashtbl.add big_tokens t v; v end
  else value_of_raw t
and value_of_raw t =
  if String.length t > 0 && t.[0] = '#' then begin
    let x = String.index t 'x' in
    let len = int_of_string (String.sub t 1 (x - 1)) in
    let pre = bytes_of_hex (String.sub t (x + 1) (String.length t - x - 1)) in
    let n = List.length pre in
    let v = n_of_int 118 in
    let rec pad k acc = if k <= 0 then acc else pad (k - 1) (v :: acc) in
    pre @ pad (len - n) [] end
  else bytes_of_hex t
let valtok (v : n list) =
  let len = List.length v in
  if len <= 32 then hex_of_bytes v
  else begin
    let h = ref 0xcbf29ce484222325L in
    List.iter (fun b -> h := Int64.mul (Int64.logxor !h (Int64.of_int (int_of_n b))) 0x100000001b3L) v;
    Printf.sprintf "#%d.%016Lx" len !h end
let trigs_of t = if t = "." then [] else List.map value_of (String.split_on_char '+' t)
let trigtok (l : n list list) =
  if l = [] then "." else String.concat "+" (List.sort_uniq compare (List.map hex_of_bytes l))

(* length of the value written as token t, without building it *)
let value_len t =
  if String.length t > 0 && t.[0] = '#' then begin
    let x = String.index t 'x' in
    max (int_of_string (String.sub t 1 (x - 1))) ((String.length t - x - 1) / 2) end
  else if t = "-" then 0 else String.length t / 2
(* the environment of the process-shared variant: a value larger than the whole shared segment cannot be
   copied into it, string_type tmp = to_int(a) throws std::bad_alloc, the catch block removes the key and
   store() returns (fault FDropBefore) *)
let fault_of backend vtok =
  if String.length backend > 1 && backend.[0] = 'p' then begin
    let kib = int_of_string (String.sub backend 1 (String.length backend - 1)) in
    if value_len vtok > kib * 1024 then FDropBefore else FNone end
  else FNone
(* ... and the same for the names: a key larger than the segment makes to_int(key) throw inside the second try block,
   before generation++ (FClear false: nl_clear, counter untouched); a trigger name larger than the segment makes
   add_trigger throw after generation++ (FClear true) *)
let store_fault backend ktok vtok trtok =
  let big t = fault_of backend t <> FNone in
  if big vtok then FDropBefore
  else if big ktok then FClear false
  else if trtok <> "." && List.exists big (String.split_on_char '+' trtok) then FClear true
  else FNone

let parse_op backend tok =
  match String.split_on_char ':' tok with
  | ["S"; k; v; tr; d; g] ->
      let f = store_fault backend k v tr in
      ("s", Store (value_of k, (if f = FNone then value_of v else []), trigs_of tr, z_of_string d,
                   (if g = "-" then None else Some (n_of_string g)), f, []))
  | ["F"; k] -> ("f", Fetch (value_of k))
  | ["R"; t] -> ("r", Rise (value_of t))
  | ["D"; k] -> ("d", Remove (value_of k))
  | ["C"] -> ("c", Clear)
  | ["T"; n] -> ("t", Tick (z_of_string n))
  | _ -> failwith "bad op"

(* ---- cache_interface model (coq/C07/Ifc.v): modes ifc (context-free interface) and ifp (request contexts, page ops).
   The driver steps the model one operation at a time because two facts about a request are part of the
   harness protocol and depend on earlier answers: a request whose response was finalized (fetch_page hit or
   store_page) skips further page operations, and store_page stores copied_data(), which is the data written
   only when a fetch_page miss switched copy_to_cache on. ---- *)
let z_of_int_str s = z_of_string s
let stats_tok st = let (k, t) = stats st.i_cache in string_of_n k ^ "/" ^ string_of_n t
let run_ifc backend lim t0 toks =
  let st = ref (i_init (n_of_string lim)) and now = ref (z_of_string t0) in
  let gz = ref false and finished = ref false and copying = ref false in
  let step o = let ((n', st'), out) = i_step !now o !st in now := n'; st := st'; out in
  let one tok =
    let body = match String.split_on_char ':' tok with
      | ["S"; k; v; tr; secs; notr] ->
          (* a frame larger than the whole shared segment cannot be copied: the back end removes the key *)
          if fault_of backend v = FNone then
            ignore (step (IStore (bytes_of_hex k, value_of v, trigs_of tr, z_of_string secs, notr = "1")))
          else
            ignore (step (IStoreFail (bytes_of_hex k, trigs_of tr, z_of_string secs, notr = "1")));
          "s"
      | ["F"; k; notr] ->
          (match step (IFetch (bytes_of_hex k, notr = "1")) with IHit v -> "h:" ^ valtok v | _ -> "m")
      | ["A"; t] -> ignore (step (IAdd (bytes_of_hex t))); "a"
      | ["R"; t] -> ignore (step (IRise (bytes_of_hex t))); "r"
      | ["C"] -> ignore (step IClear); "c"
      | ["X"] -> ignore (step IReset); "x"
      | ["T"; n] -> ignore (step (ITick (z_of_string n))); "t"
      | ["("] -> ignore (step IAttach); "("
      | [")"] -> (match step IDetach with IRec r -> ")" ^ trigtok r | _ -> ")none")
      | ["N"; g] -> ignore (step INewRequest); gz := (g = "1"); finished := false; copying := false; "n"
      | ["G"; k] ->
          if !finished then "skip" else
          (match step (IFetchPage (bytes_of_hex k, !gz)) with
           | IHit v -> finished := true; if !gz then "h:Z" else "h:" ^ valtok v
           | _ -> copying := true; "m")
      | ["P"; k; d; secs] ->
          if !finished then "skip" else begin
            let data = if !copying then value_of d else [] in
            ignore (step (IStorePage (bytes_of_hex k, data, z_of_string secs))); finished := true; "p" end
      | _ -> failwith "bad ifc op" in
    body ^ ":" ^ stats_tok !st in
  let outs = List.map one toks in
  if !st.i_cache.err then "FUEL" else String.concat " " outs

(* ---- hash_map model (coq/C07/HashMap.v), mode hm: same protocol as harness/C07_hashmap.cpp ---- *)
let hm_digest (size : n) (l : (n list * n) list) =
  let h = ref 0xcbf29ce484222325L in
  List.iter (fun (k, v) ->
    let s = hex_of_bytes k ^ "=" ^ string_of_n v ^ ";" in
    String.iter (fun c -> h := Int64.mul (Int64.logxor !h (Int64.of_int (Char.code c))) 0x100000001b3L) s) l;
  Printf.sprintf "%s:%016Lx" (string_of_n size) !h
let run_hm toks =
  let h = ref h_empty in
  let one tok =
    let body = match String.split_on_char ':' tok with
      | ["I"; k; v] -> (match h_step (HInsert (bytes_of_hex k, n_of_string v)) !h with
                        | (h', HInserted b) -> h := h'; if b then "i1" else "i0" | _ -> "?")
      | ["F"; k] -> (match h_step (HFind (bytes_of_hex k)) !h with (_, HFound v) -> "f" ^ string_of_n v | _ -> "f-")
      | ["E"; k] -> (match h_step (HErase (bytes_of_hex k)) !h with (h', HFound v) -> h := h'; "e" ^ string_of_n v | _ -> "e-")
      | ["C"] -> h := fst (h_step HClear !h); "c"
      | ["R"; n] -> let n = int_of_string n in
          if n = 0 && !h.h_size <> N0 then "rskip" else begin h := fst (h_step (HRehash (nat_of_int n)) !h); "r" end
      | _ -> failwith "bad hm op" in
    body ^ ":" ^ hm_digest !h.h_size !h.h_list in
  String.concat " " (List.map one toks)

let () = main_loop (function
  | "seq" :: backend :: lim :: t0 :: toks ->
      let ops = List.map (parse_op backend) toks in
      let ((_, s), answers) = run (z_of_string t0) (List.map snd ops) (init (n_of_string lim)) in
      if s.err then "FUEL" else
      String.concat " " (List.map2 (fun (tag, _) (o, (k, t)) ->
        let st = string_of_n k ^ "/" ^ string_of_n t in
        match o with
        | OHit (v, tr, d, g) -> "h:" ^ valtok v ^ ":" ^ trigtok tr ^ ":" ^ string_of_z d ^ ":" ^ string_of_n g ^ ":" ^ st
        | OMiss -> "m:" ^ st
        | ONone -> tag ^ ":" ^ st) ops answers)
  | "hm" :: toks -> run_hm toks
  | ("ifc" | "ifp") :: backend :: lim :: t0 :: toks -> run_ifc backend lim t0 toks
  | _ -> "BAD-CASE")
