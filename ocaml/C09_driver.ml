(* C09 model driver.
   1. `mt <mode> <limit> <now> <seed> <prefill ops> ; <ops>`  with at most ONE thread group: the run is deterministic and the
      driver prints exactly the line harness/C09_mt.cpp prints (correspondence of the sequential semantics, through C07's model).
   2. `lin <limit> <now> <thread>,<inv>,<res>,<op>,<result> ...` : a recorded concurrent history of the real cache; the driver
      searches (Wing-Gong / Lowe, memoised on (set of linearised calls, model state)) for a sequential order of all calls that
      respects real time (a call that returned before another was invoked comes first) in which the extracted model
      (Seq.eff = C07.Defs) returns exactly the recorded results.  Answer: LIN <order> | NONLIN <deepest prefix> | BUDGET. *)
let ten = n_of_int 10
let rec pos_bits = function XH -> 1 | XO p -> 1 + pos_bits p | XI p -> 1 + pos_bits p
let string_of_n n = match n with
  | N0 -> "0"
  | Npos p -> if pos_bits p <= 60 then string_of_int (int_of_n n) else begin
      let rec go n acc = if n = N0 then acc else let (q, r) = N.div_eucl n ten in go q (string_of_int (int_of_n r) ^ acc) in
      go n "" end
let n_of_string s =
  if String.length s <= 17 then n_of_int (int_of_string s)
  else begin
    let acc = ref N0 in
    String.iter (fun c -> acc := N.add (N.mul !acc ten) (n_of_int (Char.code c - 48))) s; !acc end
let z_of_string s =
  if String.length s > 0 && s.[0] = '-' then
    (match n_of_string (String.sub s 1 (String.length s - 1)) with N0 -> Z0 | Npos p -> Zneg p)
  else (match n_of_string s with N0 -> Z0 | Npos p -> Zpos p)
let string_of_z = function Z0 -> "0" | Zpos p -> string_of_n (Npos p) | Zneg p -> "-" ^ string_of_n (Npos p)

let value_of t =
  if String.length t > 0 && t.[0] = '#' then begin
    let x = String.index t 'x' in
    let len = int_of_string (String.sub t 1 (x - 1)) in
    let pre = bytes_of_hex (String.sub t (x + 1) (String.length t - x - 1)) in
    let n = List.length pre in
    let v = n_of_int 118 in
    let rec pad k acc = if k <= 0 then acc else pad (k - 1) (v :: acc) in
    pre @ pad (len - n) [] end
  else bytes_of_hex t
let valtok (v : n list) =
  let len = List.length v in
  if len <= 32 then hex_of_bytes v
  else begin
    let h = ref 0xcbf29ce484222325L in
    List.iter (fun b -> h := Int64.mul (Int64.logxor !h (Int64.of_int (int_of_n b))) 0x100000001b3L) v;
    Printf.sprintf "#%d.%016Lx" len !h end
let trigs_of t = if t = "." then [] else List.map bytes_of_hex (String.split_on_char '+' t)
(* std::set<std::string> order = bytewise order; hex of equal-length-agnostic strings: compare the byte lists *)
let trigtok (l : n list list) =
  if l = [] then "." else
    let ints = List.map (fun k -> List.map int_of_n k) l in
    let sorted = List.sort_uniq compare ints in
    String.concat "+" (List.map (fun k -> if k = [] then "-" else String.concat "" (List.map (Printf.sprintf "%02x") k)) sorted)

let parse_op tok =
  match String.split_on_char ':' tok with
  | ["S"; k; v; tr; d; g] ->
      OStore (bytes_of_hex k, value_of v, trigs_of tr, z_of_string d, (if g = "-" then None else Some (n_of_string g)))
  | ["X"; k; v; tr; d; g] ->
      OStoreFail (bytes_of_hex k, value_of v, trigs_of tr, z_of_string d, (if g = "-" then None else Some (n_of_string g)))
  | ["F"; k] -> OFetch (bytes_of_hex k)
  | ["R"; t] -> ORise (bytes_of_hex t)
  | ["D"; k] -> ORemove (bytes_of_hex k)
  | ["C"] -> OClear
  | ["Z"] -> OStats
  | _ -> failwith "bad op"

let unit_tag = function OStore _ -> "s" | OStoreFail _ -> "x" | ORise _ -> "r" | ORemove _ -> "d" | OClear -> "c" | _ -> "?"
let tok_of_ret o r =
  match r with
  | RMiss -> "m"
  | RHit (v, tr, d, g) -> "h:" ^ valtok v ^ ":" ^ trigtok tr ^ ":" ^ string_of_z d ^ ":" ^ string_of_n g
  | RUnit -> unit_tag o
  | RStats (k, t) -> "z:" ^ string_of_n k ^ "/" ^ string_of_n t

(* split the token list at ";" *)
let groups toks =
  let rec go cur acc = function
    | [] -> List.rev (List.rev cur :: acc)
    | ";" :: r -> go [] (List.rev cur :: acc) r
    | t :: r -> go (t :: cur) acc r in
  go [] [] toks

type ev = { th : int; inv : int; res : int; op : cop; rtok : string }

exception Budget

let check_lin now s0 (evs : ev array) budget =
  let n = Array.length evs in
  let done_ = Bytes.make n '0' in
  let visited = Hashtbl.create 4096 in
  let nodes = ref 0 in
  let deepest = ref 0 in
  let rec go s cnt order =
    if cnt > !deepest then deepest := cnt;
    if cnt = n then Some (List.rev order) else begin
      incr nodes;
      if !nodes > budget then raise Budget;
      let key = Bytes.to_string done_ ^ Marshal.to_string s [] in
      if Hashtbl.mem visited key then None else begin
        Hashtbl.add visited key ();
        let minres = ref max_int in
        for i = 0 to n - 1 do
          if Bytes.get done_ i = '0' && evs.(i).res < !minres then minres := evs.(i).res
        done;
        let result = ref None in
        let i = ref 0 in
        while !result = None && !i < n do
          let k = !i in
          if Bytes.get done_ k = '0' && evs.(k).inv < !minres then begin
            let (s', r) = eff now s evs.(k).op in
            if tok_of_ret evs.(k).op r = evs.(k).rtok then begin
              Bytes.set done_ k '1';
              (match go s' (cnt + 1) (k :: order) with Some o -> result := Some o | None -> ());
              Bytes.set done_ k '0'
            end
          end;
          incr i
        done;
        !result
      end
    end in
  let r = go s0 0 [] in
  (r, !deepest, !nodes)

let () = main_loop (function
  | "mt" :: mode :: lim :: now :: _seed :: toks ->
      let gs = groups toks in
      if List.length gs > 2 then "CONCURRENT" else begin
        let now = z_of_string now in
        let s = ref (init (n_of_string lim)) in
        let clk = ref 1 in
        let b = Buffer.create 256 in
        Buffer.add_string b "tsan=0";
        List.iter (fun g ->
          Buffer.add_string b " ;";
          List.iter (fun tok ->
            let o = parse_op tok in
            let (s', r) = eff now !s o in
            s := s';
            let (i, e) = if mode = "l" then (let c = !clk in clk := c + 2; (c, c + 1)) else (0, 0) in
            Buffer.add_string b (Printf.sprintf " %d,%d,%s" i e (tok_of_ret o r))) g) gs;
        if err !s then "FUEL" else Buffer.contents b end
  | "lin" :: lim :: now :: budget :: toks ->
      let evs = Array.of_list (List.map (fun t ->
        match String.split_on_char ',' t with
        | [th; i; e; o; r] -> { th = int_of_string th; inv = int_of_string i; res = int_of_string e; op = parse_op o; rtok = r }
        | _ -> failwith "bad event") toks) in
      (try
        match check_lin (z_of_string now) (init (n_of_string lim)) evs (int_of_string budget) with
        | (Some order, _, nodes) -> "LIN nodes=" ^ string_of_int nodes ^ " " ^ String.concat "," (List.map string_of_int order)
        | (None, deepest, nodes) -> Printf.sprintf "NONLIN deepest=%d/%d nodes=%d" deepest (Array.length evs) nodes
      with Budget -> "BUDGET")
  | _ -> "BAD-CASE")
