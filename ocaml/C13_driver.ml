(* C13 model driver.  argv[1] (optional): sandbox description written by checks/C13.py
     n <hexpath> d | n <hexpath> f <id> | n <hexpath> l <hextarget> | n <hexpath> o <mode>
     c <k> <hexdocroot> <listing> <check_symlink> <hexindex> [<hexurl>=<hexpath> ...]      (as configured, not canonicalised)
   cases:  np <hex> | npi <hex> | rs <hex> | rq <k> <hexrawtarget> *)
let fs : (n list * node) list ref = ref []
let cfgs : (int, config option) Hashtbl.t = Hashtbl.create 16

let load file =
  let ic = open_in file in
  let nodes = ref [] and cl = ref [] in
  (try while true do
    let l = input_line ic in
    match split_ws l with
    | ["n"; p; "d"] -> nodes := (List.rev (bytes_of_hex p), NDir) :: !nodes
    | ["n"; p; "f"; id] -> nodes := (List.rev (bytes_of_hex p), NReg (n_of_int (int_of_string id))) :: !nodes
    | ["n"; p; "l"; t] -> nodes := (List.rev (bytes_of_hex p), NLink (bytes_of_hex t)) :: !nodes
    | ["n"; p; "o"; m] -> nodes := (List.rev (bytes_of_hex p), NOther (n_of_int (int_of_string m))) :: !nodes
    | "c" :: rest -> cl := rest :: !cl
    | _ -> ()
  done with End_of_file -> ());
  close_in ic;
  fs := List.rev !nodes;
  List.iter (fun rest -> match rest with
    | k :: root :: li :: ck :: idx :: al ->
        (* the constructor: canonical() of the roots, alias_url on the urls; any failure = the service does not start *)
        let canon p = fs_realpath !fs (bytes_of_hex p) in
        let als = List.map (fun a -> match String.split_on_char '=' a with
                     | [u; p] -> (match alias_url (bytes_of_hex u), canon p with Some u', Some p' -> Some (u', p') | _ -> None)
                     | _ -> None) al in
        let c = match canon root with
          | Some r when List.for_all (fun x -> x <> None) als ->
              Some { docroot = r; aliases = List.map (function Some x -> x | None -> assert false) als; listing = (li = "1");
                     check_symlinks = (ck = "1"); index_file = bytes_of_hex idx }
          | _ -> None in
        Hashtbl.replace cfgs (int_of_string k) c
    | _ -> ()) !cl

let () = if Array.length Sys.argv > 1 then load Sys.argv.(1)

let () = main_loop (function
  | ["np"; h] -> "np " ^ hex_of_bytes (normalize (bytes_of_hex h))
  | ["npi"; h] -> "npi " ^ hex_of_bytes (normalize_ip (bytes_of_hex h))
  | ["rs"; h] -> "rs " ^ hex_of_bytes (render (resolve (split_slash (List.tl (ensure_slash (bytes_of_hex h))))))
  | ["rq"; k; h] ->
      (match (try Hashtbl.find cfgs (int_of_string k) with Not_found -> None) with
       | None -> "rq no-such-service"
       | Some cfg ->
         (match fs_handle !fs cfg (bytes_of_hex h) with
          | R404 -> "rq 404"
          | RRedirect l -> "rq 302 " ^ hex_of_bytes l
          | RListing (t, p, rows) -> "rq list " ^ hex_of_bytes (listing_page t p rows)
          | RFile (p, e) ->
              (match fs_file_id !fs p with
               | Some id -> "rq file " ^ string_of_int (int_of_n id) ^ " " ^ hex_of_bytes e
               | None -> "rq file none " ^ hex_of_bytes e)))
  | _ -> "BAD-CASE")
