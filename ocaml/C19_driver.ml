(* C19 model driver: same line protocol as harness/C19_archive.cpp *)
(* spec tree: B = multiset, N = multimap (same wire format as vector / vector of pairs, printed sorted) *)
type sp = SU | SP of int | SS | SV of int | SL of sp | SSet of sp | SM of sp * sp | SPr of sp * sp | SO of sp | SJ | SB of sp | SN of sp * sp
let parse_sp (s : string) : sp =
  let pos = ref 0 in
  let num () =
    let st = !pos in
    while !pos < String.length s && s.[!pos] >= '0' && s.[!pos] <= '9' do incr pos done;
    int_of_string (String.sub s st (!pos - st)) in
  let rec go () =
    let c = s.[!pos] in
    incr pos;
    match c with
    | 'u' -> SU
    | 'p' -> SP (num ())
    | 's' -> SS
    | 'v' -> SV (num ())
    | 'L' -> SL (go ())
    | 'S' -> SSet (go ())
    | 'B' -> SB (go ())
    | 'M' -> let k = go () in let v = go () in SM (k, v)
    | 'N' -> let k = go () in let v = go () in SN (k, v)
    | 'P' -> let a = go () in let b = go () in SPr (a, b)
    | 'O' -> SO (go ())
    | 'J' -> SJ
    | _ -> failwith "spec" in
  let t = go () in
  if !pos <> String.length s then failwith "spec-trailing";
  t
let rec ty_of_sp = function
  | SU -> TUnit | SP n -> TPod (n_of_int n) | SS -> TStr | SV n -> TPodVec (n_of_int n)
  | SL e | SB e -> TSeq (ty_of_sp e) | SSet e -> TSet (ty_of_sp e)
  | SM (k, v) -> TMap (ty_of_sp k, ty_of_sp v) | SN (k, v) -> TSeq (TPair (ty_of_sp k, ty_of_sp v))
  | SPr (a, b) -> TPair (ty_of_sp a, ty_of_sp b) | SO e -> TPtr (ty_of_sp e) | SJ -> TJson
(* the printing functions follow the spec tree (kept in a global: one case at a time) *)
let cur_sp = ref SU
let parse_spec (s : string) : ty = let t = parse_sp s in cur_sp := t; ty_of_sp t

let parse_value (s : string) : value =
  let pos = ref 0 in
  let peek () = if !pos < String.length s then s.[!pos] else '\000' in
  let expect c = if peek () = c then incr pos else failwith "value-syntax" in
  let tok () =
    let st = !pos in
    while (match peek () with '0'..'9' | 'a'..'f' | '-' -> true | _ -> false) do incr pos done;
    if !pos = st then failwith "value-token";
    String.sub s st (!pos - st) in
  let rec go () =
    match peek () with
    | '[' ->
        incr pos;
        if peek () = ']' then (incr pos; VList [])
        else begin
          let rec items acc =
            let v = go () in
            match peek () with
            | ',' -> incr pos; items (v :: acc)
            | ']' -> incr pos; List.rev (v :: acc)
            | _ -> failwith "value-list" in
          VList (items [])
        end
    | '(' ->
        incr pos;
        if peek () = ')' then (incr pos; VUnit)
        else begin
          let a = go () in expect ',';
          let b = go () in expect ')';
          VPair (a, b)
        end
    | 'N' -> incr pos; VPtr None
    | '&' -> incr pos; VPtr (Some (go ()))
    | 'j' -> incr pos; VJson (bytes_of_hex (tok ()))
    | _ -> VBytes (bytes_of_hex (tok ())) in
  let v = go () in
  if !pos <> String.length s then failwith "value-trailing";
  v

let sorted_list l = "[" ^ String.concat "," (List.sort compare l) ^ "]"
let rec prs (t : sp) (v : value) : string =
  match t, v with
  | SU, _ -> "()"
  | (SP _ | SS | SV _), VBytes b -> hex_of_bytes b
  | SJ, VJson b -> "j" ^ hex_of_bytes b
  | SL e, VList l -> "[" ^ String.concat "," (List.map (prs e) l) ^ "]"
  | (SSet e | SB e), VList l -> sorted_list (List.map (prs e) l)
  | (SM (k, x) | SN (k, x)), VList l -> sorted_list (List.map (prs (SPr (k, x))) l)
  | SPr (a, b), VPair (x, y) -> "(" ^ prs a x ^ "," ^ prs b y ^ ")"
  | SO _, VPtr None -> "N"
  | SO e, VPtr (Some x) -> "&" ^ prs e x
  | _ -> "?ill-typed"
let pr (_ : ty) (v : value) : string = prs !cur_sp v

let err_name = function
  | EEof -> "err:eof" | EFmtHdr -> "err:fmth" | EFmtSize -> "err:fmts" | EBlockLen -> "err:blen"
  | EJson -> "err:json" | EFuel -> "MODEL-FUEL" | EOob -> "MODEL-OOB"

(* the external json parser = the verdicts of the real parser recorded in the case line *)
let jlog : string list ref = ref []
let make_json_parse (tab : string) =
  let h = Hashtbl.create 8 in
  let body = String.sub tab 1 (String.length tab - 1) in
  if body <> "" then
    List.iter (fun item ->
      match String.split_on_char '=' item with
      | [k; v] -> Hashtbl.replace h k v
      | _ -> failwith "jtab") (String.split_on_char ',' body);
  fun (b : n list) ->
    let k = hex_of_bytes b in
    match Hashtbl.find_opt h k with
    | None -> failwith "json-verdict-missing"
    | Some "!" -> jlog := (k ^ "=!") :: !jlog; None
    | Some c -> jlog := (k ^ "=" ^ c) :: !jlog; Some (bytes_of_hex c)
let jlog_text () = "jl=" ^ String.concat "," (List.rev !jlog)

let is_eof buf p = int_of_n p >= List.length buf
let ld_text short jp t buf =
  match load jp t buf N0 with
  | Err e -> err_name e
  | Ok (v, p) ->
      Printf.sprintf "ok ptr=%d eof=%d" (int_of_n p) (if is_eof buf p then 1 else 0)
      ^ (if short then "" else " v=" ^ pr t v)

let rec replace_at l off bytes =
  match l, bytes with
  | _, [] -> l
  | x :: r, b :: bs -> if off > 0 then x :: replace_at r (off - 1) bytes else b :: replace_at r 0 bs
  | [], _ -> failwith "offset"
let rec take k l = if k = 0 then [] else match l with [] -> [] | x :: r -> x :: take (k - 1) r

(* ---- session map format ---- *)
let serr_name = function
  | SPack -> "err:pack" | SData -> "err:data" | SKeyLong -> "err:keylong" | SValLong -> "err:vallong"
  | SFuel -> "MODEL-FUEL" | SOob -> "MODEL-OOB"
let expand (t : string) : n list =
  if String.length t > 0 && t.[0] = '*' then List.init (int_of_string (String.sub t 1 (String.length t - 1))) (fun _ -> byte_tab.(0x78))
  else bytes_of_hex t
let parse_entries (s : string) : ((n list * bool) * n list) list =
  let body = String.sub s 1 (String.length s - 2) in
  if body = "" then [] else
  List.map (fun item ->
    match String.split_on_char ':' item with
    | [k; e; v] -> ((expand k, e = "1"), expand v)
    | _ -> failwith "entry") (String.split_on_char ',' body)
(* std::map order = unsigned byte order of the keys = order of their hex text ("-" for the empty key sorts first) *)
let print_entries (l : ((n list * bool) * n list) list) : string =
  let items = List.map (fun ((k, e), v) -> (hex_of_bytes k, (if e then "1" else "0") ^ ":" ^ hex_of_bytes v)) l in
  let items = List.sort (fun (a, _) (b, _) -> compare a b) items in
  "[" ^ String.concat "," (List.map (fun (k, r) -> k ^ ":" ^ r) items) ^ "]"
let sess_load_text (buf : n list) : string =
  match load_data buf with
  | SErr e -> serr_name e
  | SOk l -> "ok " ^ print_entries (sess_map l)

let () = main_loop (fun toks ->
  jlog := [];
  match toks with
  | ["sd"; h; _] -> "sd " ^ sess_load_text (bytes_of_hex h)
  | ["ss"; t; _] ->
      let m = parse_entries t in
      (match save_data m with
       | SErr e -> "ss " ^ serr_name e
       | SOk d ->
           let want = print_entries m in
           if m = [] then "ss D=none ok [] eq=1"
           else (match load_data d with
                 | SErr e -> "ss D=" ^ hex_of_bytes d ^ " " ^ serr_name e
                 | SOk l -> let got = print_entries (sess_map l) in
                            "ss D=" ^ hex_of_bytes d ^ " ok " ^ got ^ " eq=" ^ string_of_bool (got = want)))
  | ["ld"; _; spec; h; jt] ->
      let r = ld_text false (make_json_parse jt) (parse_spec spec) (bytes_of_hex h) in
      "ld " ^ r ^ " " ^ jlog_text ()
  | [("mu" | "muh") as op; _; spec; off; value; h; jt] ->
      let v = int_of_string value in
      let nb = List.map (fun i -> byte_tab.((v lsr (8 * i)) land 255)) [0; 1; 2; 3] in
      let buf = replace_at (bytes_of_hex h) (int_of_string off) nb in
      let r = ld_text false (make_json_parse jt) (parse_spec spec) buf in
      op ^ " " ^ r ^ " " ^ jlog_text ()
  | ["tr"; _; spec; k; h; jt] ->
      let jp = make_json_parse jt in
      let t = parse_spec spec in
      let buf = bytes_of_hex h in
      let f = ld_text true jp t buf in
      let r = ld_text false jp t (take (int_of_string k) buf) in
      "tr F:" ^ f ^ " T:" ^ r ^ " " ^ jlog_text ()
  | ["rt"; _; spec; vt; jt] ->
      let jp = make_json_parse jt in
      let t = parse_spec spec in
      let v = parse_value vt in
      let a = enc t v in
      let r =
        match load jp t a N0 with
        | Err e -> err_name e
        | Ok (v2, p) ->
            let eq = value_eqb v v2 in
            Printf.sprintf "ok ptr=%d eof=%d v=%s eq=%s eqd=%s" (int_of_n p) (if is_eof a p then 1 else 0) (pr t v2)
              (string_of_bool eq) (string_of_bool (eq && is_eof a p)) in
      "rt A=" ^ hex_of_bytes a ^ " " ^ r ^ " " ^ jlog_text ()
  | ["rd"; _; spec; vt; _; jt] ->
      let jp = make_json_parse jt in
      let t = parse_spec spec in
      let v = parse_value vt in
      let a = enc t v in
      let r =
        match load jp t a N0 with
        | Err e -> err_name e
        | Ok (v2, p) ->
            let eq = value_eqb v v2 in
            Printf.sprintf "ok ptr=%d eof=%d v=%s eq=%s eqd=%s" (int_of_n p) (if is_eof a p then 1 else 0) (pr t v2)
              (string_of_bool eq) (string_of_bool (eq && is_eof a p)) in
      "rd A=" ^ hex_of_bytes a ^ " " ^ r ^ " " ^ jlog_text ()
  | "sq" :: rest when List.length rest >= 4 && List.length rest mod 3 = 1 ->
      (* several objects saved one after another into one archive, then loaded one after another *)
      let rec split3 = function
        | [jt] -> ([], jt)
        | _ :: spec :: vt :: r -> let (l, jt) = split3 r in ((spec, vt) :: l, jt)
        | _ -> failwith "sq" in
      let (items, jt) = split3 rest in
      let jp = make_json_parse jt in
      let a = List.concat (List.map (fun (spec, vt) -> enc (ty_of_sp (parse_sp spec)) (parse_value vt)) items) in
      let rec go items p acc =
        match items with
        | [] -> List.rev acc
        | (spec, vt) :: r ->
            let t = parse_spec spec in
            let v = parse_value vt in
            (match load jp t a p with
             | Err e -> List.rev (err_name e :: acc)
             | Ok (v2, p2) ->
                 let line = Printf.sprintf "ok ptr=%d eof=%d eq=%d v=%s" (int_of_n p2) (if is_eof a p2 then 1 else 0)
                              (if value_eqb v v2 then 1 else 0) (pr t v2) in
                 go r p2 (line :: acc)) in
      "sq A=" ^ hex_of_bytes a ^ " | " ^ String.concat " | " (go items N0 []) ^ " | " ^ jlog_text ()
  | ["sc"; _; spec; vt; jt] ->
      (* store_data/fetch_data of session_interface and cache_interface: save, keep the bytes, load *)
      let jp = make_json_parse jt in
      let t = parse_spec spec in
      let v = parse_value vt in
      let a = enc t v in
      let one tag extra =
        match load jp t a N0 with
        | Err e -> tag ^ "-threw:" ^ err_name e
        | Ok (v2, _) -> tag ^ "=" ^ hex_of_bytes a ^ extra ^ " eq=" ^ string_of_bool (value_eqb v v2) ^ " v=" ^ pr t v2 in
      let s = one "S" "" in
      let c = one "C" " found=1" in
      "sc " ^ s ^ " " ^ c ^ " " ^ jlog_text ()
  | ["scl"; _; spec; h; jt] ->
      let jp = make_json_parse jt in
      let t = parse_spec spec in
      let buf = bytes_of_hex h in
      let one () = match load jp t buf N0 with Err e -> err_name e | Ok (v, _) -> "ok v=" ^ pr t v in
      let s = one () in
      let c = one () in
      "scl S:" ^ s ^ " C:" ^ c ^ " " ^ jlog_text ()
  | _ -> "BAD-CASE")
