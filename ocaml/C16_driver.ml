(* C16 model driver: same line protocol as harness/C16_crypto.cpp for the cases the model covers
   (bundled md5 / sha1 objects, hmac over them, key parsing, name dispatch, cbc status machine, the cbc object with the FIPS-197 cipher) *)
let chunks_of tok =
  if tok = "." then [] else List.map bytes_of_hex (String.split_on_char ',' tok)
let hexs l = String.concat "" (List.map (fun d -> " " ^ hex_of_bytes d) l)
let ascii l = String.concat "" (List.map (fun x -> String.make 1 (Char.chr (int_of_n x))) l)
let key_answer = function
  | KeyOk k -> "ok " ^ hex_of_bytes k
  | KeyOddLength -> "odd"
  | KeyBadChar -> "badchar"
  | KeyEmptyFile -> "emptyfile"
let op_of s =
  let n () = n_of_int (int_of_string (String.sub s 1 (String.length s - 1))) in
  match s.[0] with
  | 'k' -> OpKey (n ()) | 'i' -> OpIv (n ()) | 'n' -> OpNonce | 'e' -> OpEnc | 'd' -> OpDec
  | _ -> failwith "op"
let st_name = function StOk -> "ok" | StBadKeySize -> "badkey" | StBadIvSize -> "badiv" | StNoKey -> "nokey" | StNoIv -> "noiv" | StKeyTwice -> "keytwice"
let session_mac a key =
  match a with
  | "md5" -> (fun m -> List.hd (hmac_md5_session key [[m]])), 16
  | "sha1" -> (fun m -> List.hd (hmac_sha1_session key [[m]])), 20
  | _ -> failwith "algo"
let () = main_loop (function
  | "dg" :: "md5" :: msgs -> "dg md5" ^ hexs (md5_session (List.map chunks_of msgs))
  | "dg" :: "sha1" :: msgs -> "dg sha1" ^ hexs (sha1_session (List.map chunks_of msgs))
  | "hm" :: "md5" :: k :: msgs -> "hm md5" ^ hexs (hmac_md5_session (bytes_of_hex k) (List.map chunks_of msgs))
  | "hm" :: "sha1" :: k :: msgs -> "hm sha1" ^ hexs (hmac_sha1_session (bytes_of_hex k) (List.map chunks_of msgs))
  | "dg" :: ("sha224" | "sha256" | "sha384" | "sha512" as a) :: msgs ->
      (* the OpenSSL-backed wrappers against FIPS 180-4 written in coq/C16/Sha2Defs.v *)
      let bits = n_of_int (int_of_string (String.sub a 3 3)) in
      "dg " ^ a ^ hexs (sha2_session bits (List.map chunks_of msgs))
  | "hm" :: ("sha224" | "sha256" | "sha384" | "sha512" as a) :: k :: msgs ->
      let bits = n_of_int (int_of_string (String.sub a 3 3)) in
      "hm " ^ a ^ hexs (hmac_sha2_session bits (bytes_of_hex k) (List.map chunks_of msgs))
  | ["key"; h] -> "key " ^ key_answer (set_hex (bytes_of_hex h))
  | ["hexkey"; h] -> "hexkey " ^ hex_of_bytes (to_hex (bytes_of_hex h)) ^ " rt=1"
  | ["keyf"; h] -> "keyf " ^ key_answer (key_from_file (bytes_of_hex h))
  | ["name"; h] ->
      (match digest_by_name (bytes_of_hex h) with
       | None -> "name null"
       | Some ((nm, ds), bs) -> Printf.sprintf "name %s %d %d" (ascii nm) (int_of_n ds) (int_of_n bs))
  | "cbcst" :: bits :: ops ->
      let ks = n_of_int (int_of_string bits / 8) in
      "cbcst" ^ String.concat "" (List.map (fun s -> " " ^ st_name s) (cbc_ctl_run ks (false, false) (List.map op_of ops)))
  | "cbcobj" :: bits :: ops ->
      (* the whole object with the FIPS-197 cipher of coq/C16/AesDefs.v: statuses and output bytes *)
      let ks = n_of_int (int_of_string bits / 8) in
      let arg s = bytes_of_hex (String.sub s 1 (String.length s - 1)) in
      let op s = match s.[0] with
        | 'k' -> OKey (arg s) | 'i' -> OIv (arg s) | 'e' -> OEnc (arg s) | 'd' -> ODec (arg s) | _ -> failwith "op" in
      let served = List.map (fun s -> s.[0] = 'e' || s.[0] = 'd') ops in
      let res = aes_obj_run ks (List.map op ops) in
      "cbcobj" ^ String.concat "" (List.map2 (fun (st, out) sv ->
          " " ^ st_name st ^ (if sv && st = StOk then ":" ^ hex_of_bytes out else "")) res served)
  | ["cbc"; _; k; iv; msg] ->
      (* ciphertext of the whole plaintext under the FIPS-197 cipher; the flags are what the theorems promise *)
      let plain = List.concat (chunks_of msg) in
      let c = fst (cbc_enc (aes_E (bytes_of_hex k)) (bytes_of_hex iv) plain) in
      "cbc " ^ hex_of_bytes c ^ " chain=1 rt=1 rtb=1 ivind=1 reiv=1"
  | ["cbcname"; h] ->
      (match cbc_by_name (bytes_of_hex h) with None -> "cbcname null" | Some ks -> Printf.sprintf "cbcname %d 16" (int_of_n ks))
  | ["sessd"; "hmac"; a; k; c] ->
      (* hmac_cipher::decrypt: the model of src/hmac_encryptor.cpp over the modelled hmac objects *)
      let mac, dsz = session_mac a (bytes_of_hex k) in
      (match hc_decrypt mac (nat_of_int dsz) (bytes_of_hex c) with
       | Some p -> "sessd ok:" ^ hex_of_bytes p | None -> "sessd fail")
  | ["sessd"; "aes"; _; a; ck; mk; c] ->
      (* aes_cipher::decrypt: the model of src/aes_encryptor.cpp with the FIPS-197 cipher; the running IV of the object is
         irrelevant (cbc_dec_blocks_2_to_n_iv_independent): zeros here *)
      let mac, dsz = session_mac a (bytes_of_hex mk) in
      let zero16 = bytes_of_hex "00000000000000000000000000000000" in
      (match fst (ac_decrypt mac (nat_of_int dsz) (aes_D (bytes_of_hex ck)) zero16 (bytes_of_hex c)) with
       | Some p -> "sessd ok:" ^ hex_of_bytes p | None -> "sessd fail")
  | _ -> "BAD-CASE")
