(* C16 model driver: same line protocol as harness/C16_crypto.cpp for the cases the model covers
   (bundled md5 / sha1 objects, hmac over them, key parsing, name dispatch, cbc status machine) *)
let chunks_of tok =
  if tok = "." then [] else List.map bytes_of_hex (String.split_on_char ',' tok)
let hexs l = String.concat "" (List.map (fun d -> " " ^ hex_of_bytes d) l)
let ascii l = String.concat "" (List.map (fun x -> String.make 1 (Char.chr (int_of_n x))) l)
let key_answer = function
  | KeyOk k -> "ok " ^ hex_of_bytes k
  | KeyOddLength -> "odd"
  | KeyBadChar -> "badchar"
  | KeyEmptyFile -> "emptyfile"
let op_of s =
  let n () = n_of_int (int_of_string (String.sub s 1 (String.length s - 1))) in
  match s.[0] with
  | 'k' -> OpKey (n ()) | 'i' -> OpIv (n ()) | 'n' -> OpNonce | 'e' -> OpEnc | 'd' -> OpDec
  | _ -> failwith "op"
let st_name = function StOk -> "ok" | StBadKeySize -> "badkey" | StBadIvSize -> "badiv" | StNoKey -> "nokey" | StNoIv -> "noiv"
let () = main_loop (function
  | "dg" :: "md5" :: msgs -> "dg md5" ^ hexs (md5_session (List.map chunks_of msgs))
  | "dg" :: "sha1" :: msgs -> "dg sha1" ^ hexs (sha1_session (List.map chunks_of msgs))
  | "hm" :: "md5" :: k :: msgs -> "hm md5" ^ hexs (hmac_md5_session (bytes_of_hex k) (List.map chunks_of msgs))
  | "hm" :: "sha1" :: k :: msgs -> "hm sha1" ^ hexs (hmac_sha1_session (bytes_of_hex k) (List.map chunks_of msgs))
  | ["key"; h] -> "key " ^ key_answer (set_hex (bytes_of_hex h))
  | ["hexkey"; h] -> "hexkey " ^ hex_of_bytes (to_hex (bytes_of_hex h)) ^ " rt=1"
  | ["keyf"; h] -> "keyf " ^ key_answer (key_from_file (bytes_of_hex h))
  | ["name"; h] ->
      (match digest_by_name (bytes_of_hex h) with
       | None -> "name null"
       | Some ((nm, ds), bs) -> Printf.sprintf "name %s %d %d" (ascii nm) (int_of_n ds) (int_of_n bs))
  | "cbcst" :: bits :: ops ->
      let ks = n_of_int (int_of_string bits / 8) in
      "cbcst" ^ String.concat "" (List.map (fun s -> " " ^ st_name s) (cbc_ctl_run ks (false, false) (List.map op_of ops)))
  | _ -> "BAD-CASE")
