(* C10 driver: same line protocol as harness/C10_netcache.cpp *)
let split_on c s = String.split_on_char c s
let parse_trigs s = if s = "_" then [] else List.map bytes_of_hex (split_on ',' s)
let show_trigs t = if t = [] then "_" else String.concat "," (List.map hex_of_bytes t)
(* int64 <-> Z without going through the 63-bit native int *)
let rec pos_of_u64 (v : int64) : positive =
  if Int64.equal v 1L then XH
  else let r = pos_of_u64 (Int64.shift_right_logical v 1) in
       if Int64.equal (Int64.logand v 1L) 1L then XI r else XO r
let z_of_int64 (v : int64) : z =
  if Int64.equal v 0L then Z0 else if Int64.compare v 0L > 0 then Zpos (pos_of_u64 v) else Zneg (pos_of_u64 (Int64.neg v))
let rec u64_of_pos = function XH -> 1L | XO p -> Int64.shift_left (u64_of_pos p) 1 | XI p -> Int64.logor (Int64.shift_left (u64_of_pos p) 1) 1L
let int64_of_z = function Z0 -> 0L | Zpos p -> u64_of_pos p | Zneg p -> Int64.neg (u64_of_pos p)
let z_of_string s = z_of_int64 (Int64.of_string s)
let string_of_z v = Int64.to_string (int64_of_z v)
let n_of_u64 v = if Int64.equal v 0L then N0 else Npos (pos_of_u64 v)
let string_of_n = function N0 -> "0" | Npos p -> Printf.sprintf "%Lu" (u64_of_pos p)
let n_of_string s = n_of_u64 (Int64.of_string ("0u" ^ s))

let show_entry = function
  | None -> "0"
  | Some e -> "1." ^ hex_of_bytes e.e_val ^ "." ^ string_of_z e.e_dl ^ "." ^ show_trigs e.e_trg ^ "." ^ string_of_n e.e_gen

let parse_op tok =
  match split_on ':' tok with
  | ["S"; c; k; v; dl; t] -> OStore (nat_of_int (int_of_string c), bytes_of_hex k, bytes_of_hex v, parse_trigs t, z_of_string dl)
  | ["F"; c; k] -> OFetch (nat_of_int (int_of_string c), bytes_of_hex k, true)
  | ["G"; c; k] -> OFetch (nat_of_int (int_of_string c), bytes_of_hex k, false)
  | ["R"; c; t] -> ORise (nat_of_int (int_of_string c), bytes_of_hex t)
  | ["C"; c] -> OClear (nat_of_int (int_of_string c))
  | ["E"; c; k] -> OEvict (nat_of_int (int_of_string c), bytes_of_hex k)
  | ["X"; c] -> OStats (nat_of_int (int_of_string c))
  | ["T"; d] -> OTick (z_of_string d)
  | ["W"; s; h; p] ->
      (match hdr_parse (bytes_of_hex h) with
       | Some hh -> ORaw (nat_of_int (int_of_string s), hh, bytes_of_hex p)
       | None -> failwith "hdr")
  | _ -> failwith "op"

let history ns flags ops =
  let l1 = List.init (String.length flags) (fun i -> flags.[i] = '1' || flags.[i] = 'R') in
  (* r / R: a node configured with the server list in reverse order (NetDefs.rstep) *)
  let reversed c = let i = int_of_nat c in i < String.length flags && (flags.[i] = 'r' || flags.[i] = 'R') in
  let client_of = function
    | OStore (c, _, _, _, _) | OFetch (c, _, _) | ORise (c, _) | OClear c | OEvict (c, _) | OStats c -> Some c
    | _ -> None in
  let x = ref (ninit (nat_of_int (int_of_string ns)) l1) in
  let b = Buffer.create 256 in
  Buffer.add_string b "H";
  let bad = ref false in
  let inject = ref (-1) in    (* Z:n: the next call loses its connection after n bytes of the answer *)
  List.iter (fun tok ->
    if !bad || String.length tok < 3 then (if String.length tok < 3 then bad := true)
    else match tok.[0], split_on ':' tok with
    | 'Z', [_; n] -> inject := int_of_string n
    | 'Y', [_; _] -> ()      (* short transfers: no effect on any answer (NetProofs.transmit_schedule_independent) *)
    | 'B', [_; sv] -> x := { nw = restart !x.nw (nat_of_int (int_of_string sv)); nw_up = !x.nw_up }
    | 'D', [_; sv] -> x := snd (nstep !x (NDown (nat_of_int (int_of_string sv))))
    | 'U', [_; sv] -> x := snd (nstep !x (NUp (nat_of_int (int_of_string sv))))
    | ('B' | 'D' | 'U' | 'Y'), _ -> bad := true
    | _ ->
      let o = parse_op tok in
      let inj = !inject in
      inject := -1;
      let (r, x1) =
        (match client_of o, o with
         | Some c, _ when reversed c -> let (a, w1) = rstep !x.nw o in (NObs a, { nw = w1; nw_up = !x.nw_up })
         (* failure after >= 1 bytes of the answer: the server had executed the request; the retry sends the request again
            (since /repo d350cd9) and it is executed a second time - visible only in the generation of a stored record.
            (After 0 bytes it runs once or twice, depending on whether the server had read the request before the connection
            was reset - NetProofs.transmit_any_schedule allows both; not generated before a store.) *)
         (* the answer to a store is the bare 40 byte header: a failure point at or behind byte 40 is never reached *)
         | _, OStore _ when inj >= 1 && inj < 40 -> nstep (snd (nstep !x (NOp o))) (NOp o)
         | _ -> nstep !x (NOp o)) in
      x := x1;
      let w1 = x1.nw in
      (match o, r with
       | _, NExn -> Buffer.add_string b (" !" ^ String.make 1 tok.[0])
       | OFetch (_, k, tags), NObs (ObsFetch r) ->
           Buffer.add_string b (if tags then " f=" else " g=");
           (match r with
            | None -> Buffer.add_string b "0"
            | Some ((v, t), dl) ->
                Buffer.add_string b ("1." ^ hex_of_bytes v ^ "." ^ string_of_z dl);
                if tags then Buffer.add_string b ("." ^ show_trigs t));
           (* ground truth: the servers own caches after the call (a fetch never changes them) *)
           List.iter (fun e -> Buffer.add_string b ("|" ^ show_entry e)) (truth w1 k)
       | _, NObs (ObsStats (k, t)) -> Buffer.add_string b (" x=" ^ string_of_n k ^ "." ^ string_of_n t)
       | _, NObs (ObsRaw (h, p)) -> Buffer.add_string b (" w=" ^ hex_of_bytes (hdr_bytes h) ^ "." ^ hex_of_bytes p)
       | _, NObs ObsNone -> ()
       | _, _ -> bad := true)) ops;
  if !bad then "H BAD-CASE" else Buffer.contents b

let show_frame (h, p) = hex_of_bytes (hdr_bytes h) ^ "." ^ hex_of_bytes p
let reply rh rp = match hdr_parse (bytes_of_hex rh) with Some h -> (h, bytes_of_hex rp) | None -> failwith "hdr"

let () = main_loop (function
  | "H" :: ns :: flags :: ops -> history ns flags ops
  | "M" :: _ -> "M"   (* concurrent run: checked by the property oracle only *)
  | ["L"] ->          (* the flag word of the fetch request: transfer_triggers, transfer_if_not_uptodate, both *)
      let w a b = string_of_n (fst (enc_fetch [] N0 a b)).h_u3 in
      "L " ^ w true false ^ " " ^ w false true ^ " " ^ w true true
  | ["P"; "F"; k; g; tags; tif; rh; rp] ->
      let tags = tags = "1" and tif = tif = "1" in
      let (h, p) = reply rh rp in
      let rq = enc_fetch (bytes_of_hex k) (n_of_string g) tags tif in
      "P " ^ show_frame rq ^ " r=" ^
      (match dec_fetch tif tags h p with
       | FUpToDate -> "-1"
       | FNotFound -> "0"
       | FData (v, t, dl, gen) -> "1." ^ hex_of_bytes v ^ "." ^ string_of_z dl ^ "." ^ show_trigs (mkset t) ^ "." ^ string_of_n gen)
  | "P" :: "Z" :: kind :: rest ->
      (* failure in the middle of the answer: the header object after the failed read, the request the second attempt sends
         (NetDefs.overlay / second_request, the functions messenger::transmit is modelled with), and what the client makes of
         the second answer *)
      let (h, data), cut, rh, rp, dec =
        (match kind, rest with
         | "F", [k; g; tags; tif; cut; rh; rp] ->
             let tags = tags = "1" and tif = tif = "1" in
             enc_fetch (bytes_of_hex k) (n_of_string g) tags tif, int_of_string cut, rh, rp,
             (fun (h2, p2) -> "r=" ^ (match dec_fetch tif tags h2 p2 with
               | FUpToDate -> "-1" | FNotFound -> "0"
               | FData (v, t, dl, gen) -> "1." ^ hex_of_bytes v ^ "." ^ string_of_z dl ^ "." ^ show_trigs (mkset t) ^ "." ^ string_of_n gen))
         | "S", [k; v; dl; t; cut; rh; rp] ->
             enc_store (bytes_of_hex k) (bytes_of_hex v) (mkset (parse_trigs t)) (z_of_string dl), int_of_string cut, rh, rp,
             (fun _ -> "r")
         | _ -> failwith "probe") in
      let (ah, ap) = reply rh rp in
      let stream = hdr_bytes ah @ ap in
      (* what the failed read left in the header object; the second attempt restores the request header (NetDefs.second_request) *)
      let hb = if cut >= 40 then take (n_of_int 40) stream else overlay (take (n_of_int cut) stream) (hdr_bytes h) in
      (match second_request h hb data with
       | None -> "P MODEL-BAD-HEADER"
       | Some (h2, p2) ->
           "P " ^ show_frame (h, data) ^ " " ^ hex_of_bytes (hdr_bytes h2) ^ "." ^ hex_of_bytes p2 ^ "." ^ string_of_n h2.h_size ^
           " " ^ dec (ah, ap))
  | ["P"; "S"; k; v; dl; t; _; _] ->
      "P " ^ show_frame (enc_store (bytes_of_hex k) (bytes_of_hex v) (mkset (parse_trigs t)) (z_of_string dl)) ^ " r"
  | ["P"; "R"; t; _; _] -> "P " ^ show_frame (enc_rise (bytes_of_hex t)) ^ " r"
  | ["P"; "C"; _; _] -> "P " ^ show_frame enc_clear ^ " r"
  | ["P"; "X"; rh; rp] ->
      let (h, _) = reply rh rp in
      "P " ^ show_frame enc_stats ^ " r=" ^
      (if int_of_n h.h_op = 10 then string_of_n h.h_u0 ^ "." ^ string_of_n h.h_u1 else "0.0")
  | _ -> "BAD-CASE")
