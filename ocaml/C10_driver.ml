(* C10 driver: same line protocol as harness/C10_netcache.cpp *)
let split_on c s = String.split_on_char c s
let parse_trigs s = if s = "_" then [] else List.map bytes_of_hex (split_on ',' s)
let show_trigs t = if t = [] then "_" else String.concat "," (List.map hex_of_bytes t)
(* int64 <-> Z without going through the 63-bit native int *)
let rec pos_of_u64 (v : int64) : positive =
  if Int64.equal v 1L then XH
  else let r = pos_of_u64 (Int64.shift_right_logical v 1) in
       if Int64.equal (Int64.logand v 1L) 1L then XI r else XO r
let z_of_int64 (v : int64) : z =
  if Int64.equal v 0L then Z0 else if Int64.compare v 0L > 0 then Zpos (pos_of_u64 v) else Zneg (pos_of_u64 (Int64.neg v))
let rec u64_of_pos = function XH -> 1L | XO p -> Int64.shift_left (u64_of_pos p) 1 | XI p -> Int64.logor (Int64.shift_left (u64_of_pos p) 1) 1L
let int64_of_z = function Z0 -> 0L | Zpos p -> u64_of_pos p | Zneg p -> Int64.neg (u64_of_pos p)
let z_of_string s = z_of_int64 (Int64.of_string s)
let string_of_z v = Int64.to_string (int64_of_z v)
let n_of_u64 v = if Int64.equal v 0L then N0 else Npos (pos_of_u64 v)
let string_of_n = function N0 -> "0" | Npos p -> Printf.sprintf "%Lu" (u64_of_pos p)
let n_of_string s = n_of_u64 (Int64.of_string ("0u" ^ s))

let show_entry = function
  | None -> "0"
  | Some e -> "1." ^ hex_of_bytes e.e_val ^ "." ^ string_of_z e.e_dl ^ "." ^ show_trigs e.e_trg ^ "." ^ string_of_n e.e_gen

let parse_op tok =
  match split_on ':' tok with
  | ["S"; c; k; v; dl; t] -> OStore (nat_of_int (int_of_string c), bytes_of_hex k, bytes_of_hex v, parse_trigs t, z_of_string dl)
  | ["F"; c; k] -> OFetch (nat_of_int (int_of_string c), bytes_of_hex k, true)
  | ["G"; c; k] -> OFetch (nat_of_int (int_of_string c), bytes_of_hex k, false)
  | ["R"; c; t] -> ORise (nat_of_int (int_of_string c), bytes_of_hex t)
  | ["C"; c] -> OClear (nat_of_int (int_of_string c))
  | ["E"; c; k] -> OEvict (nat_of_int (int_of_string c), bytes_of_hex k)
  | ["X"; c] -> OStats (nat_of_int (int_of_string c))
  | ["T"; d] -> OTick (z_of_string d)
  | ["W"; s; h; p] ->
      (match hdr_parse (bytes_of_hex h) with
       | Some hh -> ORaw (nat_of_int (int_of_string s), hh, bytes_of_hex p)
       | None -> failwith "hdr")
  | _ -> failwith "op"

let history ns flags ops =
  let l1 = List.init (String.length flags) (fun i -> flags.[i] = '1') in
  let w = ref (init_world (nat_of_int (int_of_string ns)) l1) in
  let b = Buffer.create 256 in
  Buffer.add_string b "H";
  let bad = ref false in
  List.iter (fun tok ->
    if not !bad && String.length tok > 2 && tok.[0] = 'B' then
      (match split_on ':' tok with
       | ["B"; sv] -> w := restart !w (nat_of_int (int_of_string sv))
       | _ -> bad := true)
    else if not !bad then begin
      let o = parse_op tok in
      let w0 = !w in
      let (x, w1) = step w0 o in
      w := w1;
      (match o, x with
       | OFetch (_, k, tags), ObsFetch r ->
           Buffer.add_string b (if tags then " f=" else " g=");
           (match r with
            | None -> Buffer.add_string b "0"
            | Some ((v, t), dl) ->
                Buffer.add_string b ("1." ^ hex_of_bytes v ^ "." ^ string_of_z dl);
                if tags then Buffer.add_string b ("." ^ show_trigs t));
           (* ground truth: the servers own caches after the call (a fetch never changes them) *)
           List.iter (fun e -> Buffer.add_string b ("|" ^ show_entry e)) (truth w1 k)
       | _, ObsStats (k, t) -> Buffer.add_string b (" x=" ^ string_of_n k ^ "." ^ string_of_n t)
       | _, ObsRaw (h, p) -> Buffer.add_string b (" w=" ^ hex_of_bytes (hdr_bytes h) ^ "." ^ hex_of_bytes p)
       | _, ObsNone -> ()
       | _, _ -> bad := true)
    end) ops;
  if !bad then "H BAD-CASE" else Buffer.contents b

let show_frame (h, p) = hex_of_bytes (hdr_bytes h) ^ "." ^ hex_of_bytes p
let reply rh rp = match hdr_parse (bytes_of_hex rh) with Some h -> (h, bytes_of_hex rp) | None -> failwith "hdr"

let () = main_loop (function
  | "H" :: ns :: flags :: ops -> history ns flags ops
  | "M" :: _ -> "M"   (* concurrent run: checked by the property oracle only *)
  | ["P"; "F"; k; g; tags; tif; rh; rp] ->
      let tags = tags = "1" and tif = tif = "1" in
      let (h, p) = reply rh rp in
      let rq = enc_fetch (bytes_of_hex k) (n_of_string g) tags tif in
      "P " ^ show_frame rq ^ " r=" ^
      (match dec_fetch tif tags h p with
       | FUpToDate -> "-1"
       | FNotFound -> "0"
       | FData (v, t, dl, gen) -> "1." ^ hex_of_bytes v ^ "." ^ string_of_z dl ^ "." ^ show_trigs (mkset t) ^ "." ^ string_of_n gen)
  | ["P"; "S"; k; v; dl; t; _; _] ->
      "P " ^ show_frame (enc_store (bytes_of_hex k) (bytes_of_hex v) (mkset (parse_trigs t)) (z_of_string dl)) ^ " r"
  | ["P"; "R"; t; _; _] -> "P " ^ show_frame (enc_rise (bytes_of_hex t)) ^ " r"
  | ["P"; "C"; _; _] -> "P " ^ show_frame enc_clear ^ " r"
  | ["P"; "X"; rh; rp] ->
      let (h, _) = reply rh rp in
      "P " ^ show_frame enc_stats ^ " r=" ^
      (if int_of_n h.h_op = 10 then string_of_n h.h_u0 ^ "." ^ string_of_n h.h_u1 else "0.0")
  | _ -> "BAD-CASE")
