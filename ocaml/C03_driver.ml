(* case line: <proto> K:<sched> M=<request model description> S:<hex> R ... ; one M= token per request on the connection.
   M=<proto>;<http11>;<cka>;<async>;<defbuf>;<reqid>;<version hex>;<server hex>;<base headers>;<script>
   (M=skip... : outside the modelled domain, answered with SKIP) *)
let split_on c s = String.split_on_char c s
let pattern off n =
  let rec go i acc = if i < 0 then acc else go (i-1) (byte_tab.(((off + i) * 131 + 7) mod 251) :: acc) in go (n-1) []
let rec list_concat = function [] -> [] | x :: r -> List.rev_append (List.rev x) (list_concat r)
let parse_sched s = if s = "" || s = "-" then [] else List.map (fun x -> n_of_int (int_of_string x)) (List.filter (fun x -> x <> "") (split_on ',' s))
let cache : (string, n list) Hashtbl.t = Hashtbl.create 16

let parse_kv arg = match split_on ':' arg with [k; v] -> (bytes_of_hex k, bytes_of_hex v) | [k] -> (bytes_of_hex k, []) | _ -> failwith "kv"

(* returns (ops, cache key to store or None) *)
let parse_script (script : string) =
  let off = ref 0 in
  let store = ref None in
  let rec go toks acc = match toks with
    | [] -> List.rev acc
    | "" :: r -> go r acc
    | t :: r ->
      let a = String.sub t 1 (String.length t - 1) in
      (match t.[0] with
       | 'w' -> let n = int_of_string a in let s = pattern !off n in off := !off + n; go r (OWrite s :: acc)
       | 'p' -> let n = int_of_string a in let s = pattern !off n in off := !off + n; go r (OPut s :: acc)
       | 'W' -> (match split_on ':' a with
                 | [ns; cs] ->
                   let n = int_of_string ns and piece = max 1 (int_of_string cs) in
                   let rec pieces n acc = if n <= 0 then acc else
                       let k = min n piece in let s = pattern !off k in off := !off + k; pieces (n - k) (OWrite s :: acc) in
                   go r (pieces n acc)
                 | _ -> failwith "W")
       | 'z' -> (match split_on ':' a with
                 | [ns; ss] ->
                   let n = int_of_string ns in
                   let x = ref ((int_of_string ss) land 0x7fffffff) in
                   let rec gen i acc = if i >= n then List.rev acc else begin
                       x := (!x * 1103515245 + 12345) land 0x7fffffff; gen (i + 1) (byte_tab.((!x lsr 16) land 255) :: acc) end in
                   go r (OWrite (gen 0 []) :: acc)
                 | _ -> failwith "z")
       | 'r' -> go r (OWrite (bytes_of_hex a) :: acc)
       | 'P' -> go r (OPut (bytes_of_hex a) :: acc)
       | 'f' -> go r (OFlush :: acc)
       | 'b' -> let n = int_of_string a in go r ((if n < 0 then OSetbuf (true, N0) else OSetbuf (false, n_of_int n)) :: acc)
       | 'u' -> go r (OFull (a = "1") :: acc)
       | 'h' -> let (k, v) = parse_kv a in go r (OHeader (k, v) :: acc)
       | 'l' -> go r (OHeader (cONTENT_LENGTH, decN (n_of_int (int_of_string a))) :: acc)
       | 'k' -> let (k, v) = parse_kv a in go r (OCookie (k, v) :: acc)
       | 'a' -> go r (OAsyncFlush :: acc)
       | 'c' -> (match Hashtbl.find_opt cache a with
                 | Some page -> List.rev (OWrite page :: acc)
                 | None -> store := Some a; go r (OCopy :: acc))
       | _ -> go r acc) in
  let ops = go (split_on ',' script) [] in
  (ops, !store)

let run_case toks =
  let sched = ref [] in
  List.iter (fun t -> if String.length t >= 2 && String.sub t 0 2 = "K:" then sched := parse_sched (String.sub t 2 (String.length t - 2))) toks;
  let ms = List.filter (fun t -> String.length t >= 2 && String.sub t 0 2 = "M=") toks in
  if ms = [] then "BAD-CASE" else
  if List.exists (fun t -> String.length t >= 6 && String.sub t 0 6 = "M=skip") ms then "SKIP" else begin
    let pending = ref [] and log = ref [] and outs = ref [] and alive = ref true in
    List.iter (fun m -> if not !alive then outs := "-" :: !outs else
      let f = Array.of_list (split_on ';' (String.sub m 2 (String.length m - 2))) in
      let proto = match f.(0) with "http" -> Http | "scgi" -> Scgi | _ -> Fcgi in
      let b x = (x = "1") in
      let base = List.fold_left (fun h kv -> if kv = "" then h else let (k, v) = parse_kv kv in hmap_set h k v) [] (split_on '|' f.(8)) in
      let (ops, store) = parse_script f.(9) in
      let c0 = new_conn proto (b f.(1)) (b f.(2)) (n_of_int (int_of_string f.(5))) (bytes_of_hex f.(7)) !pending !sched !log in
      let (c1, copy) = run_request (b f.(3)) { h_map = base; h_added = [] } (n_of_int (int_of_string f.(4))) (bytes_of_hex f.(6)) c0 ops in
      (match store with Some k -> Hashtbl.replace cache k copy | None -> ());
      pending := c1.k_pending; sched := c1.k_sched; log := c1.k_log;
      if proto = Http && not c1.k_fmt.f_keepalive then alive := false;
      if proto = Scgi then alive := false;
      outs := (hex_of_bytes (list_concat c1.k_wire) ^ (if c1.k_err then "!ERR" else "") ^ (if c1.k_pending <> [] then "!PENDING" else "")) :: !outs) ms;
    let b = Buffer.create 256 in
    List.iter (fun (o, a) -> Buffer.add_string b (Printf.sprintf "%d:%d," (int_of_n o) (int_of_n a))) !log;
    String.concat " " (List.rev !outs) ^ " wv=" ^ (if !log = [] then "-" else Buffer.contents b)
  end

let () = main_loop run_case
