(* C18 model driver: same line protocol as harness/C18_filestore.cpp *)
let split_on c s = String.split_on_char c s
let z_of_string s =
  let neg = String.length s > 0 && s.[0] = '-' in
  let s' = if neg then String.sub s 1 (String.length s - 1) else s in
  let ds = List.init (String.length s') (fun i -> n_of_int (Char.code s'.[i] - 48)) in
  z_of_dec neg ds
let string_of_z z =
  let (neg, ds) = z_to_dec z in
  (if neg then "-" else "") ^ String.concat "" (List.map (fun d -> string_of_int (int_of_n d)) ds)
let name_of_string s = List.init (String.length s) (fun i -> n_of_int (Char.code s.[i]))
let hex8 n = Printf.sprintf "%08x" (int_of_n n)
(* checksum used only to report file contents compactly (native code, not part of the model) *)
let crc_tab = Array.init 256 (fun i -> let c = ref i in for _ = 1 to 8 do c := if !c land 1 = 1 then (!c lsr 1) lxor 0xEDB88320 else !c lsr 1 done; !c)
let native_crc (l : n list) =
  let c = List.fold_left (fun c b -> (c lsr 8) lxor crc_tab.((c lxor int_of_n b) land 0xff)) 0xFFFFFFFF l in
  Printf.sprintf "%08x" (c lxor 0xFFFFFFFF)
(* pattern payloads @len.seed.flip (see harness/C18_filestore.cpp) and the digest form of long values *)
let pattern_spec spec =
  let v = Array.of_list (List.map int_of_string (split_on '.' spec)) in
  let len = v.(0) and seed = (if Array.length v > 1 then v.(1) else 0) and flip = (if Array.length v > 2 then v.(2) else -1) in
  List.init (max len 0) (fun i ->
    let b = (seed + 31 * i + 17 * (i lsr 8) + 101 * (i lsr 16)) land 255 in
    byte_tab.(if i = flip then b lxor 0x5a else b))
let payload tok = if String.length tok > 0 && tok.[0] = '@' then pattern_spec (String.sub tok 1 (String.length tok - 1)) else bytes_of_hex tok
let show (l : n list) = let n = List.length l in if n <= 4096 then hex_of_bytes l else Printf.sprintf "#%d.%s" n (native_crc l)
let take k l = let rec go k l acc = if k <= 0 then List.rev acc else match l with [] -> List.rev acc | x :: r -> go (k - 1) r (x :: acc) in go k l []
let rec drop k l = if k <= 0 then l else match l with [] -> [] | _ :: r -> drop (k - 1) r
let n_of_string s = (* decimal, < 2^62 *) n_of_int (int_of_string s)
let summary names d =
  let parts = List.concat (List.mapi (fun i nm ->
    match lookup nm d with
    | None -> []
    | Some f -> [Printf.sprintf "%d=%d.%s" i (List.length f) (native_crc f)]) names) in
  "{" ^ String.concat "," parts ^ "}"
let writes_str t d =
  String.concat "," (List.map (fun (off, bs) -> Printf.sprintf "%d+%d+%s" (int_of_n off) (List.length bs) (native_crc bs)) (save_writes t d))
let chunks_str t d acc =
  let (_, parts) = List.fold_left (fun (off, out) bs -> (off + List.length bs, Printf.sprintf "%d+%d+%s" off (List.length bs) (native_crc bs) :: out))
                     (0, []) (short_chunks t d acc) in
  String.concat "," (List.rev parts)
let () = main_loop (fun toks ->
  match toks with
  | "Z" :: specs ->
      String.concat " " (List.map (fun tok ->
        let a = split_on ':' tok in
        let buf = pattern_spec (List.hd a) in
        let ns = (match a with [_; s] -> List.map int_of_string (split_on ',' s) | _ -> []) in
        let (chunks, rest) = List.fold_left (fun (acc, rest) n -> (take n rest :: acc, drop n rest)) ([], buf) ns in
        hex8 (crc32_calc (List.rev (rest :: chunks)))) specs)
  | fl :: nm :: ops when String.length fl = 2 && fl.[0] = 'F' && String.length nm >= 2 && String.sub nm 0 2 = "N=" ->
      let names = List.map name_of_string (split_on ',' (String.sub nm 2 (String.length nm - 2))) in
      let nth_name i = List.nth names (int_of_string i) in
      let okn i = (match int_of_string_opt i with Some k -> k >= 0 && k < List.length names && valid_name (List.nth names k) | None -> false) in
      let d = ref [] in
      let outs = List.map (fun o ->
        let a = split_on ':' o in
        let r = (match a with
          | ["M"; i; _; _] when not (okn i) -> "BAD-OP"
          | ["M"; i; now; mb] ->
              let (r, d') = load_limited (n_of_int (int_of_string mb * 1048576)) (z_of_string now) (nth_name i) !d in
              d := d';
              (match r with LNone -> "M=none" | LExc -> "M=EXC" | LSome (t, data) -> "M=" ^ string_of_z t ^ "." ^ show data)
          | [("S"|"L"|"X"|"K"|"W"); i] | [("S"|"L"|"X"|"K"|"W"); i; _] | [("S"|"L"|"X"|"K"|"W"); i; _; _] | [("S"|"L"|"X"|"K"|"W"); i; _; _; _] when not (okn i) -> "BAD-OP"
          | [("D"|"H"); i; _; _] when not (okn i) -> "BAD-OP"
          | ["H"; i; now; _] ->
              (* read_all advances its buffer: cut reads of the header fields are transparent as well *)
              let (r, d') = load (z_of_string now) (nth_name i) !d in
              d := d';
              (match r with None -> "H=none" | Some (t, data) -> "H=" ^ string_of_z t ^ "." ^ show data)
          | ["Y"; now; _] -> d := gc (z_of_string now) !d; "Y"
          | ["A"; i; _; _; _] when not (okn i) -> "BAD-OP"
          | ["A"; i; now; t; h] ->
              (* the per-sid lock makes gc's look-and-remove atomic: the racing request sees the directory as gc left it *)
              let now = z_of_string now in
              let (_, d1) = load now (nth_name i) (gc now !d) in
              d := save (nth_name i) (z_of_string t) (payload h) d1; "A"
          | ["D"; i; now; ks] ->
              let acc = if ks = "-" then [] else List.map (fun k -> nat_of_int (int_of_string k)) (split_on ',' ks) in
              let (r, d') = load_short (z_of_string now) (nth_name i) acc !d in
              d := d';
              (match r with None -> "D=none" | Some (t, data) -> "D=" ^ string_of_z t ^ "." ^ show data)
          | ["W"; i; t; h; ks] ->
              let t = z_of_string t and data = payload h in
              let acc = if ks = "-" then [] else List.map (fun k -> nat_of_int (int_of_string k)) (split_on ',' ks) in
              d := save_short (nth_name i) t data acc !d; "W[" ^ chunks_str t data acc ^ "]"
          | ["S"; i; t; h] ->
              let t = z_of_string t and data = payload h in
              d := save (nth_name i) t data !d; "S[" ^ writes_str t data ^ "]"
          | ["K"; i; t; h; ps] ->
              let t = z_of_string t and data = payload h in
              let ps = if ps = "-" then [] else List.map n_of_string (split_on ',' ps) in
              d := crash_save (nth_name i) t data ps !d; "K[" ^ writes_str t data ^ "]"
          | ["P"; i; h] -> d := store (nth_name i) (payload h) !d; "P"
          | ["L"; i; now] ->
              let (r, d') = load (z_of_string now) (nth_name i) !d in
              d := d';
              (match r with None -> "L=none" | Some (t, data) -> "L=" ^ string_of_z t ^ "." ^ show data)
          | ["G"; now] -> d := gc (z_of_string now) !d; "G"
          | ["X"; i] -> d := remove (nth_name i) !d; "X"
          | ["T"; i; t; _; _; _] when okn i ->
              (* threads: with the per-sid lock every load sees a complete record; the script ends with remove + save "final" *)
              d := save (nth_name i) (z_of_string t) (name_of_string "final") (remove (nth_name i) !d); "T=ok"
          | ["T"; _; _; _; _; _] -> "BAD-OP"
          | ["U"; i; t; _; _; _] when okn i && fl = "F1" ->
              d := save (nth_name i) (z_of_string t) (name_of_string "final") (remove (nth_name i) !d); "U=ok"
          | ["U"; _; _; _; _; _] -> "BAD-OP"
          | ["V"; h] -> (match valid_sid (bytes_of_hex h) with None -> "V=none" | Some id -> "V=" ^ hex_of_bytes id)
          | ["Q"; now; h] ->
              let (r, d') = sid_load (z_of_string now) (bytes_of_hex h) !d in
              d := d';
              (match r with None -> "Q=none" | Some (t, data) -> "Q=" ^ string_of_z t ^ "." ^ show data)
          | _ -> "BAD-OP") in
        if r = "BAD-OP" then r else r ^ summary names !d) ops in
      String.concat " " outs
  | _ -> "BAD-CASE")
