(* shared by all drivers; textually prepended after `open <extracted module>` *)
let rec pos_of_int i = if i = 1 then XH else if i land 1 = 1 then XI (pos_of_int (i lsr 1)) else XO (pos_of_int (i lsr 1))
let n_of_int i = if i = 0 then N0 else Npos (pos_of_int i)
let rec int_of_pos = function XH -> 1 | XO p -> 2 * int_of_pos p | XI p -> 2 * int_of_pos p + 1
let int_of_n = function N0 -> 0 | Npos p -> int_of_pos p
let z_of_int i = if i = 0 then Z0 else if i > 0 then Zpos (pos_of_int i) else Zneg (pos_of_int (-i))
let int_of_z = function Z0 -> 0 | Zpos p -> int_of_pos p | Zneg p -> - (int_of_pos p)
let nat_of_int i = let rec go i acc = if i = 0 then acc else go (i-1) (S acc) in go i O
let int_of_nat n = let rec go n acc = match n with O -> acc | S m -> go m (acc+1) in go n 0
let byte_tab = Array.init 256 n_of_int
let hexval c = match c with '0'..'9' -> Char.code c - 48 | 'a'..'f' -> Char.code c - 87 | 'A'..'F' -> Char.code c - 55 | _ -> failwith "hex"
(* "-" is the empty string *)
let bytes_of_hex (s : string) : n list =
  if s = "-" then [] else begin
    let l = String.length s / 2 in
    let rec go i acc = if i < 0 then acc else go (i-1) (byte_tab.(hexval s.[2*i] * 16 + hexval s.[2*i+1]) :: acc) in
    go (l-1) [] end
let hex_of_bytes (l : n list) : string =
  if l = [] then "-" else begin
    let b = Buffer.create 64 in
    List.iter (fun x -> Buffer.add_string b (Printf.sprintf "%02x" (int_of_n x land 0xffff))) l;
    Buffer.contents b end
let string_of_bool b = if b then "1" else "0"
let split_ws s = List.filter (fun x -> x <> "") (String.split_on_char ' ' s)
let main_loop (f : string list -> string) =
  try
    while true do
      let line = input_line stdin in
      let out = try f (split_ws line) with e -> "MODEL-EXN " ^ Printexc.to_string e in
      print_string out; print_char '\n'
    done
  with End_of_file -> ()
