(* C20 driver.  Case lines (see checks/C20.py for the grammar):
     T <throws> V<n> (k v)* <app> Q <query>*          application tree + queries
     G <n> (<mp> <app>)*n Q <query>*                  mounted pools + request queries
     S <throws> V<n> (k v)* <site> Q <query>*         (abstract only) site; prepared into a T line
     W N<n> (<pat> <rewrite pattern hex> <final>)*n Q <url hex>*     url_rewriter rules + urls
     L N<n> (<kind> <mp> <app>)*n Q <op>*             both mount lists of the applications pool; kind f|p|y (list apps) | a (legacy list);
                                                      op = m <i> | q <host> <script> <path> <method> | x <i> | u <i> | o
     C N<n> (<kind> <mp> <app>)*n Q <op>*             the same behind the SCGI / FastCGI front ends; op = m <i> | x <i> | u <i> | c <s|f> <host> <script> <path> <method>
     F R<k> rules SN<j> names N<n> (<kind> <mp> <app>)*n Q <op>*     the same behind the http front end; op = m <i> | x <i> | u <i> | r <host> <uri> <method>
   Patterns are "<hex of pattern text>:<ast>" (concrete) or "<ast>" (abstract).  With --prepare the
   driver reads abstract lines and prints the concrete lines, the pattern / template texts being
   produced by the verified printers (rprint, route_template, build). *)

exception Bad of string
let bad s = raise (Bad s)

(* ---------- AST reader ---------- *)
let hexv c = match c with '0'..'9' -> Char.code c - 48 | 'a'..'f' -> Char.code c - 87 | _ -> bad "hex"
let rd_cset (s : string) (i : int ref) : cset =
  let neg = if s.[!i] = '!' then (incr i; true) else false in
  let rs = ref [] in
  while s.[!i] <> ';' do
    let b k = byte_tab.(hexv s.[!i + k] * 16 + hexv s.[!i + k + 1]) in
    rs := (b 0, b 2) :: !rs; i := !i + 4
  done;
  incr i;
  { cneg = neg; cranges = List.rev !rs }
let rec rd_re (s : string) (i : int ref) : re =
  let c = s.[!i] in incr i;
  match c with
  | 'z' -> Emp | 'e' -> Eps
  | 'c' -> let v = hexv s.[!i] * 16 + hexv s.[!i + 1] in i := !i + 2; Chr byte_tab.(v)
  | 's' -> Cls (rd_cset s i)
  | '&' -> let a = rd_re s i in let b = rd_re s i in Cat (a, b)
  | '|' -> let a = rd_re s i in let b = rd_re s i in Alt (a, b)
  | '*' -> Star (rd_re s i) | '+' -> Plus (rd_re s i) | '?' -> Opt (rd_re s i) | 'g' -> Grp (rd_re s i)
  | _ -> bad "re"
let rd_route (s : string) (i : int ref) : route =
  let out = ref [] in
  while !i < String.length s do
    let c = s.[!i] in incr i;
    (match c with
     | 'L' -> let j = String.index_from s !i ',' in
              let h = String.sub s !i (j - !i) in
              out := RLit (bytes_of_hex (if h = "" then "-" else h)) :: !out; i := j + 1
     | 'P' -> let plus = s.[!i] = '1' in incr i; let cs = rd_cset s i in out := RPar (cs, plus) :: !out
     | _ -> bad "route")
  done;
  List.rev !out
let rd_ast (a : string) : pattern =
  if a = "" then bad "empty ast" else
  let i = ref 1 in
  match a.[0] with
  | 'R' -> PRoute (rd_route a i)
  | 'E' -> let e = rd_re a i in if !i <> String.length a then bad "trailing re" else PRe e
  | _ -> bad "pattern kind"
(* token -> (given text option, pattern) *)
let rd_pat (tok : string) : string option * pattern =
  match String.index_opt tok ':' with
  | Some j -> (Some (String.sub tok 0 j), rd_ast (String.sub tok (j + 1) (String.length tok - j - 1)))
  | None -> (None, rd_ast tok)

(* ---------- AST writer ---------- *)
let hx2 v = Printf.sprintf "%02x" (int_of_n v)
let wr_cset cs = (if cs.cneg then "!" else "") ^ String.concat "" (List.map (fun (a, b) -> hx2 a ^ hx2 b) cs.cranges) ^ ";"
let rec wr_re = function
  | Emp -> "z" | Eps -> "e" | Chr c -> "c" ^ hx2 c | Cls cs -> "s" ^ wr_cset cs
  | Cat (a, b) -> "&" ^ wr_re a ^ wr_re b | Alt (a, b) -> "|" ^ wr_re a ^ wr_re b
  | Star a -> "*" ^ wr_re a | Plus a -> "+" ^ wr_re a | Opt a -> "?" ^ wr_re a | Grp a -> "g" ^ wr_re a
let wr_route r = String.concat "" (List.map (function
  | RLit l -> "L" ^ (if l = [] then "" else hex_of_bytes l) ^ ","
  | RPar (cs, plus) -> "P" ^ (if plus then "1" else "0") ^ wr_cset cs) r)
let wr_pat p = hex_of_bytes (pat_print p) ^ ":" ^ (match p with PRoute r -> "R" ^ wr_route r | PRe e -> "E" ^ wr_re e)

(* ---------- token stream ---------- *)
let toks : string list ref = ref []
let mismatch = ref false
let next () = match !toks with t :: r -> toks := r; t | [] -> bad "eof"
let peek () = match !toks with t :: _ -> t | [] -> ""
let expect s = if next () <> s then bad ("expected " ^ s)
let counted pre = let t = next () in
  if String.length t < 1 || t.[0] <> pre then bad ("expected count " ^ String.make 1 pre) else int_of_string (String.sub t 1 (String.length t - 1))
let rec times n f = if n <= 0 then [] else let x = f () in x :: times (n - 1) f
let pat_tok () =
  let (given, p) = rd_pat (next ()) in
  (match given with Some h when h <> hex_of_bytes (pat_print p) -> mismatch := true | _ -> ());
  p
let optpat_tok () = if peek () = "-" then (ignore (next ()); None) else Some (pat_tok ())
let hexb () = bytes_of_hex (next ())
let natt () = nat_of_int (int_of_string (next ()))

let rd_opt () : dopt =
  match next () with
  | "H" ->
      let k = (match next () with "a" | "g" -> KAssign | "m" -> KMap | "i" -> KMapNum TInt | "u" -> KMapNum TUInt | "l" -> KMapNum TLLong
                                | "w" -> KMapNum TULLong | "h" -> KMapNum TShort | "k" -> KMapNum TUShort | _ -> bad "kind") in
      let p = pat_tok () in
      let mf = if peek () = "@" then (ignore (next ()); MAny)
               else (match pat_tok () with PRe e -> MPat e | PRoute r -> MPat (route_re r)) in
      let hid = n_of_int (int_of_string (next ())) in
      let ns = int_of_string (next ()) in
      let sel = times ns natt in
      DH (k, p, mf, hid, sel)
  | "X" -> let p = pat_tok () in let sel = natt () in let kid = natt () in DM (p, sel, kid)
  | _ -> bad "opt"
let rd_ment () : ment =
  match next () with
  | "U" -> let k = hexb () in let t = hexb () in MUrl (k, t)
  | "C" -> let k = hexb () in let t = hexb () in let kid = natt () in MMount (k, t, kid)
  | _ -> bad "ment"
let rec rd_app () : app0 =
  expect "(";
  let root = hexb () in
  let opts = times (counted 'O') rd_opt in
  let ments = times (counted 'M') rd_ment in
  let kids = times (counted 'K') rd_app in
  expect ")";
  App (opts, ments, kids, root)
let rec rd_site () : site =
  expect "[";
  let pages = times (counted 'P') (fun () ->
    let k = hexb () in
    let r = (match rd_pat (next ()) with (_, PRoute r) -> r | _ -> bad "page route") in
    let h = n_of_int (int_of_string (next ())) in ((k, r), h)) in
  let subs = times (counted 'B') (fun () ->
    let name = hexb () in let prefix = hexb () in let s = rd_site () in ((name, prefix), s)) in
  expect "]";
  Site (pages, subs)
let rd_vals () = times (counted 'V') (fun () -> let k = hexb () in let v = hexb () in (k, v))
(* W<n> (<pos> <key> <value>)*: values set on the mapper of a node before its parent mounts it (optional) *)
let rd_pre () =
  if String.length (peek ()) > 0 && (peek ()).[0] = 'W' then
    times (counted 'W') (fun () -> let pos = next () in let k = hexb () in let v = hexb () in (pos, k, v))
  else []
let wr_pre pre = if pre = [] then [] else
  [String.concat " " (Printf.sprintf "W%d" (List.length pre) :: List.map (fun (pos, k, v) -> pos ^ " " ^ hex_of_bytes k ^ " " ^ hex_of_bytes v) pre)]
let rec app_depth (App (_, _, kids, _)) = 1 + List.fold_left (fun m k -> max m (app_depth k)) 0 kids
let rd_mp () : mpoint =
  expect "{";
  let h = optpat_tok () in let s = optpat_tok () in let p = optpat_tok () in
  let g = natt () in
  let sel = (match next () with "p" -> true | "s" -> false | _ -> bad "sel") in
  expect "}";
  { mp_host = h; mp_script = s; mp_path = p; mp_group = g; mp_selpath = sel }

(* ---------- printers of concrete lines ---------- *)
let wr_opt = function
  | DH (k, p, mf, hid, sel) ->
      Printf.sprintf "H %s %s %s %d %d%s" (match k with KAssign -> "a" | KMap -> "m" | KMapNum TInt -> "i" | KMapNum TUInt -> "u" | KMapNum TLLong -> "l"
                                 | KMapNum TULLong -> "w" | KMapNum TShort -> "h" | KMapNum TUShort -> "k") (wr_pat p)
        (match mf with MAny -> "@" | MPat e -> wr_pat (PRe e)) (int_of_n hid) (List.length sel)
        (String.concat "" (List.map (fun s -> " " ^ string_of_int (int_of_nat s)) sel))
  | DM (p, sel, kid) -> Printf.sprintf "X %s %d %d" (wr_pat p) (int_of_nat sel) (int_of_nat kid)
let wr_ment = function
  | MUrl (k, t) -> Printf.sprintf "U %s %s" (hex_of_bytes k) (hex_of_bytes t)
  | MMount (k, t, kid) -> Printf.sprintf "C %s %s %d" (hex_of_bytes k) (hex_of_bytes t) (int_of_nat kid)
let rec wr_app (App (opts, ments, kids, root)) =
  String.concat " " (["("; hex_of_bytes root; Printf.sprintf "O%d" (List.length opts)] @ List.map wr_opt opts
                     @ [Printf.sprintf "M%d" (List.length ments)] @ List.map wr_ment ments
                     @ [Printf.sprintf "K%d" (List.length kids)] @ List.map wr_app kids @ [")"])
let wr_vals vs = String.concat " " (Printf.sprintf "V%d" (List.length vs) :: List.map (fun (k, v) -> hex_of_bytes k ^ " " ^ hex_of_bytes v) vs)
let wr_optpat = function None -> "-" | Some p -> wr_pat p
let wr_mp m = Printf.sprintf "{ %s %s %s %d %s }" (wr_optpat m.mp_host) (wr_optpat m.mp_script) (wr_optpat m.mp_path)
    (int_of_nat m.mp_group) (if m.mp_selpath then "p" else "s")

(* ---------- results ---------- *)
let wr_outcome = function
  | Fired (h, args) -> Printf.sprintf "F %d %d%s" (int_of_n h) (List.length args)
                         (String.concat "" (List.map (fun a -> " " ^ hex_of_bytes a) args))
  | NotFound -> "N" | Threw -> "T" | BadKid -> "B"
let rd_ctx t = if t = "~" then None else Some (bytes_of_hex t)
let rd_pos t = if t = "r" then [] else List.map (fun x -> nat_of_int (int_of_string x)) (String.split_on_char '.' t)

let rec app_supported (App (_, _, kids, _) as a) = mounts_once a && List.for_all app_supported kids

let eval_tree_queries throws vals0 root =
  let cur = ref vals0 in
  let out = ref [] in
  while !toks <> [] do
    let r =
      match next () with
      | "d" -> let c = rd_ctx (next ()) in let url = hexb () in
               (match c with Some _ -> wr_outcome (app_main root url c) | None -> wr_outcome (dispatch root url c))
      | "m" -> let pos = rd_pos (next ()) in let key = hexb () in let np = int_of_string (next ()) in
               let ps = times np hexb in
               (match map_output throws (map_at root !cur pos key ps) with Some u -> "U " ^ hex_of_bytes u | None -> "E")
      | "x" -> let pos = rd_pos (next ()) in let key = hexb () in let _exp = next () in
               let np = int_of_string (next ()) in let ps = times np hexb in
               (match map_output throws (map_at root !cur pos key ps) with
                | Some u -> "U " ^ hex_of_bytes u ^ " " ^ wr_outcome (app_main root u (Some [byte_tab.(71); byte_tab.(69); byte_tab.(84)]))
                | None -> "E")
      | "sw" -> let _pos = next () in let k = hexb () in let v = hexb () in
                cur := List.filter (fun (k', _) -> k' <> k) !cur @ [(k, v)]; "s"
      | "cw" -> let _pos = next () in let k = hexb () in
                cur := List.filter (fun (k', _) -> k' <> k) !cur; "c"
      | "sv" -> let k = hexb () in let v = hexb () in
                cur := List.filter (fun (k', _) -> k' <> k) !cur @ [(k, v)]; "s"
      | "cv" -> let k = hexb () in
                cur := List.filter (fun (k', _) -> k' <> k) !cur; "c"
      | q -> bad ("query " ^ q) in
    out := r :: !out
  done;
  String.concat " | " (List.rev !out)

let eval_line (ts : string list) : string =
  toks := ts; mismatch := false;
  match next () with
  | "T" ->
      let throws = next () = "1" in
      let vals = rd_vals () in
      let pre = rd_pre () in
      let root = rd_app () in
      expect "Q";
      let rec vt (App (_, _, kids, _)) path =
        VT (List.filter_map (fun (pos, k, v) -> if rd_pos pos = List.rev path then Some (k, v) else None) pre,
            List.mapi (fun i kid -> vt kid (nat_of_int i :: path)) kids) in
      let vals = collect_vals (nat_of_int (app_depth root + 1)) root (vt root []) @ vals in
      if !mismatch then "PRINT-MISMATCH"
      else if not (build_ok root) then "CONSTRUCT-ERROR"
      else if not (app_supported root) then "UNSUPPORTED"
      else eval_tree_queries throws vals root
  | "G" ->
      let n = counted 'N' in
      let pools = times n (fun () -> let mp = rd_mp () in let a = rd_app () in (mp, a)) in
      expect "Q";
      if !mismatch then "PRINT-MISMATCH" else begin
        let out = ref [] in
        while !toks <> [] do
          let r =
            match next () with
            | "q" -> let h = hexb () in let s = hexb () in let p = hexb () in let m = hexb () in
                     (match route_request pools h s p m with
                      | RNoPool -> "-"
                      | RApp (i, sub, o) -> Printf.sprintf "%d %s %s" (int_of_nat i) (hex_of_bytes sub) (wr_outcome o))
            | "k" -> let i = int_of_string (next ()) in let h = hexb () in let s = hexb () in let p = hexb () in
                     (match mp_match (Stdlib.fst (List.nth pools i)) h s p with Some sub -> "+ " ^ hex_of_bytes sub | None -> "-")
            | q -> bad ("query " ^ q) in
          out := r :: !out
        done;
        String.concat " | " (List.rev !out)
      end
  | ("L" | "C") as lkind ->
      let cgi = lkind = "C" in
      let n = counted 'N' in
      let decls = Array.of_list (times n (fun () -> let k = next () in let mp = rd_mp () in let a = rd_app () in (k, mp, a))) in
      expect "Q";
      if !mismatch then "PRINT-MISMATCH" else begin
        let st = ref ps_empty in
        let hist = ref [] in            (* the same history for the verified trace functions run / run_ref *)
        let answers = ref [] in
        let mounted = Array.make n false in
        let requested = Array.make n false in
        let idx () = let i = int_of_string (next ()) in if i < 0 || i >= n then bad "index" else i in
        let appof id = let i = int_of_nat id in
          if i < n && mounted.(i) then (let (_, _, a) = decls.(i) in Some a) else None in
        let out = ref [] in
        let unsupported = ref None in
        while !toks <> [] && !unsupported = None do
          let r =
            match next () with
            | "m" -> let i = idx () in
                     let (k, mp, _) = decls.(i) in
                     if mounted.(i) then (unsupported := Some "mount index"; "")
                     else begin
                       mounted.(i) <- true;
                       (match k with
                        | "a" -> st := mount_legacy !st mp (nat_of_int i); hist := OMountLegacy (mp, nat_of_int i) :: !hist
                        | "f" | "p" | "y" -> st := mount_app !st mp (nat_of_int i); hist := OMountApp (mp, nat_of_int i) :: !hist
                        | _ -> bad "mount kind");
                       "m"
                     end
            | ("q" | "c") as op when (op = "c") = cgi ->
                     if cgi then ignore (next ());
                     let h = hexb () in let s = hexb () in let p = hexb () in let m = hexb () in
                     let (r, st') = route_ps !st appof h s p m in
                     st := st';
                     hist := OLookup (h, s, p) :: !hist;
                     answers := (match r with RNoPool -> None | RApp (id, sub, _) -> Some (id, sub)) :: !answers;
                     (match r with
                      | RNoPool -> if cgi then "404" else "-"
                      | RApp (id, sub, o) -> requested.(int_of_nat id) <- true;
                                             if cgi then (match o with NotFound -> "404" | _ -> wr_outcome o)
                                             else Printf.sprintf "%d %s %s" (int_of_nat id) (hex_of_bytes sub) (wr_outcome o))
            | "x" -> let i = idx () in
                     let (k, _, _) = decls.(i) in
                     if k <> "a" || not mounted.(i) then (unsupported := Some "kill index"; "")
                     else if not requested.(i) then (unsupported := Some "kill before the first request"; "")
                     else (st := kill !st (nat_of_int i); hist := OKill (nat_of_int i) :: !hist; "x")
            | "u" -> let i = idx () in
                     let (k, _, _) = decls.(i) in
                     if (k <> "p" && k <> "y") || not mounted.(i) then (unsupported := Some "unmount index"; "")
                     else (st := unmount !st (nat_of_int i); hist := OUnmount (nat_of_int i) :: !hist; "u")
            | "o" -> let present = List.map int_of_nat (legacy_ids !st) in
                     let gone = List.filter (fun i -> let (k, _, _) = decls.(i) in k = "a" && mounted.(i) && requested.(i) && not (List.mem i present))
                                  (List.init n (fun i -> i)) in
                     "P:" ^ String.concat "," (List.map string_of_int gone)
            | q -> bad ("op " ^ q) in
          out := r :: !out
        done;
        let ops = List.rev !hist in
        if run ps_empty ops <> List.rev !answers || run_ref ps_empty ops <> List.rev !answers then "MODEL-INCONSISTENT" else
        match !unsupported with
        | Some w -> String.concat " | " (List.rev (("UNSUPPORTED-HARNESS " ^ w) :: List.tl !out))
        | None -> String.concat " | " (List.rev !out)
      end
  | "F" ->
      let k = counted 'R' in
      let rules = times k (fun () -> let p = pat_tok () in let pat = hexb () in let fin = next () = "1" in (p, pat, fin)) in
      let j = (match next () with t when String.length t > 2 && String.sub t 0 2 = "SN" -> int_of_string (String.sub t 2 (String.length t - 2)) | _ -> bad "SN") in
      let names = times j hexb in
      let n = counted 'N' in
      let decls = Array.of_list (times n (fun () -> let k = next () in let mp = rd_mp () in let a = rd_app () in (k, mp, a))) in
      expect "Q";
      if !mismatch then "PRINT-MISMATCH" else begin
        let rs = List.map (fun (p, pat, fin) -> mk_rule p pat fin) rules in
        if List.exists (fun r -> r = None) rs then "CONSTRUCT-ERROR" else begin
          let rs = List.map (function Some r -> r | None -> bad "rule") rs in
          let st = ref ps_empty in
          let mounted = Array.make n false in
          let requested = Array.make n false in
          let idx () = let i = int_of_string (next ()) in if i < 0 || i >= n then bad "index" else i in
          let appof id = let i = int_of_nat id in
            if i < n && mounted.(i) then (let (_, _, a) = decls.(i) in Some a) else None in
          let out = ref [] in
          let unsupported = ref None in
          while !toks <> [] && !unsupported = None do
            let r =
              match next () with
              | "m" -> let i = idx () in
                       let (k, mp, _) = decls.(i) in
                       if mounted.(i) then (unsupported := Some "mount index"; "")
                       else begin
                         mounted.(i) <- true;
                         (match k with
                          | "a" -> st := mount_legacy !st mp (nat_of_int i)
                          | "f" | "p" | "y" -> st := mount_app !st mp (nat_of_int i)
                          | _ -> bad "mount kind");
                         "m"
                       end
              | "x" -> let i = idx () in
                       let (k, _, _) = decls.(i) in
                       if k <> "a" || not mounted.(i) then (unsupported := Some "kill index"; "")
                       else if not requested.(i) then (unsupported := Some "kill before the first request"; "")
                       else (st := kill !st (nat_of_int i); "x")
              | "u" -> let i = idx () in
                       let (k, _, _) = decls.(i) in
                       if (k <> "p" && k <> "y") || not mounted.(i) then (unsupported := Some "unmount index"; "")
                       else (st := unmount !st (nat_of_int i); "u")
              | "r" -> let h = hexb () in let uri = hexb () in let m = hexb () in
                       let (r, st') = serve_ps rs names !st appof h uri m in
                       st := st';
                       (match r with
                        | Bad400 -> "400"
                        | Served RNoPool -> "404"
                        | Served (RApp (id, _, o)) -> requested.(int_of_nat id) <- true;
                                                      (match o with NotFound -> "404" | _ -> wr_outcome o))
              | q -> bad ("op " ^ q) in
            out := r :: !out
          done;
          match !unsupported with
          | Some w -> String.concat " | " (List.rev (("UNSUPPORTED-HARNESS " ^ w) :: List.tl !out))
          | None -> String.concat " | " (List.rev !out)
        end
      end
  | "W" ->
      let n = counted 'N' in
      let rules = times n (fun () -> let p = pat_tok () in let pat = hexb () in let fin = next () = "1" in (p, pat, fin)) in
      expect "Q";
      if !mismatch then "PRINT-MISMATCH" else begin
        let rs = List.map (fun (p, pat, fin) -> mk_rule p pat fin) rules in
        if List.exists (fun r -> r = None) rs then "CONSTRUCT-ERROR" else begin
          let rs = List.map (function Some r -> r | None -> bad "rule") rs in
          let out = ref [] in
          while !toks <> [] do out := hex_of_bytes (rw_apply rs (hexb ())) :: !out done;
          String.concat " | " (List.rev !out)
        end
      end
  | "E" ->
      (* E R<k> (<pat> <rewrite pattern hex> <final>)*k SN<j> <hex>*j N<n> (<mp> <app>)*n Q (<host> <uri> <method>)* *)
      let k = counted 'R' in
      let rules = times k (fun () -> let p = pat_tok () in let pat = hexb () in let fin = next () = "1" in (p, pat, fin)) in
      let j = (match next () with t when String.length t > 2 && String.sub t 0 2 = "SN" -> int_of_string (String.sub t 2 (String.length t - 2)) | _ -> bad "SN") in
      let names = times j hexb in
      let n = counted 'N' in
      let pools = times n (fun () -> let mp = rd_mp () in let a = rd_app () in (mp, a)) in
      expect "Q";
      if !mismatch then "PRINT-MISMATCH" else begin
        let rs = List.map (fun (p, pat, fin) -> mk_rule p pat fin) rules in
        if List.exists (fun r -> r = None) rs then "CONSTRUCT-ERROR" else begin
          let rs = List.map (function Some r -> r | None -> bad "rule") rs in
          let out = ref [] in
          while !toks <> [] do
            let h = hexb () in let uri = hexb () in let m = hexb () in
            let r = (match serve rs names pools h uri m with
                     | Bad400 -> "400"
                     | Served RNoPool -> "404"
                     | Served (RApp (_, _, o)) -> (match o with NotFound -> "404" | _ -> wr_outcome o)) in
            out := r :: !out
          done;
          String.concat " | " (List.rev !out)
        end
      end
  | _ -> bad "case kind"

let prepare_line (ts : string list) : string =
  toks := ts; mismatch := false;
  match next () with
  | "T" ->
      let throws = next () in let vals = rd_vals () in let pre = rd_pre () in let root = rd_app () in expect "Q";
      String.concat " " (["T"; throws; wr_vals vals] @ wr_pre pre @ [wr_app root; "Q"] @ !toks)
  | "S" ->
      let throws = next () in let vals = rd_vals () in let s = rd_site () in expect "Q";
      String.concat " " (["T"; throws; wr_vals vals; wr_app (build s); "Q"] @ !toks)
  | "G" ->
      let n = counted 'N' in
      let pools = times n (fun () -> let mp = rd_mp () in let a = rd_app () in (mp, a)) in
      expect "Q";
      String.concat " " (["G"; Printf.sprintf "N%d" n] @ List.map (fun (mp, a) -> wr_mp mp ^ " " ^ wr_app a) pools @ ["Q"] @ !toks)
  | ("L" | "C") as lkind ->
      let n = counted 'N' in
      let decls = times n (fun () -> let k = next () in let mp = rd_mp () in let a = rd_app () in (k, mp, a)) in
      expect "Q";
      String.concat " " ([lkind; Printf.sprintf "N%d" n] @ List.map (fun (k, mp, a) -> k ^ " " ^ wr_mp mp ^ " " ^ wr_app a) decls @ ["Q"] @ !toks)
  | "F" ->
      let k = counted 'R' in
      let rules = times k (fun () -> let (_, p) = rd_pat (next ()) in let pat = next () in let fin = next () in (p, pat, fin)) in
      let sn = next () in
      let j = int_of_string (String.sub sn 2 (String.length sn - 2)) in
      let names = times j (fun () -> next ()) in
      let n = counted 'N' in
      let decls = times n (fun () -> let k = next () in let mp = rd_mp () in let a = rd_app () in (k, mp, a)) in
      expect "Q";
      String.concat " " (["F"; Printf.sprintf "R%d" k] @ List.map (fun (p, pat, fin) -> wr_pat p ^ " " ^ pat ^ " " ^ fin) rules
                         @ [sn] @ names @ [Printf.sprintf "N%d" n] @ List.map (fun (k, mp, a) -> k ^ " " ^ wr_mp mp ^ " " ^ wr_app a) decls @ ["Q"] @ !toks)
  | "W" ->
      let n = counted 'N' in
      let rules = times n (fun () -> let (_, p) = rd_pat (next ()) in let pat = next () in let fin = next () in (p, pat, fin)) in
      expect "Q";
      String.concat " " (["W"; Printf.sprintf "N%d" n] @ List.map (fun (p, pat, fin) -> wr_pat p ^ " " ^ pat ^ " " ^ fin) rules @ ["Q"] @ !toks)
  | "E" ->
      let k = counted 'R' in
      let rules = times k (fun () -> let (_, p) = rd_pat (next ()) in let pat = next () in let fin = next () in (p, pat, fin)) in
      let sn = next () in
      let j = int_of_string (String.sub sn 2 (String.length sn - 2)) in
      let names = times j (fun () -> next ()) in
      let n = counted 'N' in
      let pools = times n (fun () -> let mp = rd_mp () in let a = rd_app () in (mp, a)) in
      expect "Q";
      String.concat " " (["E"; Printf.sprintf "R%d" k] @ List.map (fun (p, pat, fin) -> wr_pat p ^ " " ^ pat ^ " " ^ fin) rules
                         @ [sn] @ names @ [Printf.sprintf "N%d" n] @ List.map (fun (mp, a) -> wr_mp mp ^ " " ^ wr_app a) pools @ ["Q"] @ !toks)
  | _ -> bad "case kind"

let () =
  let prep = Array.length Sys.argv > 1 && Sys.argv.(1) = "--prepare" in
  main_loop (fun ts -> try (if prep then prepare_line ts else eval_line ts) with Bad s -> "BAD-CASE " ^ s)
