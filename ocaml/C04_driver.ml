(* C04 model driver.  Case line = the harness case line (m= c= n= enc= ent= fun= tags= repl= in=) followed by
   the oracle table printed by the harness: F=<k>:<valuehex>:<0|1>,..  E=<texthex>:<valid>:<vof>:<filteredhex>,..
   Answer: v= fl= rm= es= vrm= ves=   (same fields as the harness prints before " | ") *)
exception Missing of string
let split_on c s = if s = "-" || s = "" then [] else String.split_on_char c s
let field fs k = try List.assoc k fs with Not_found -> "-"
let () = main_loop (fun toks ->
  let fs = List.filter_map (fun t ->
    match String.index_opt t '=' with
    | Some p -> Some (String.sub t 0 p, String.sub t (p+1) (String.length t - p - 1))
    | None -> None) toks in
  let xhtml = field fs "m" <> "h" in
  let funs_tbl = Hashtbl.create 16 in
  List.iter (fun e -> match String.split_on_char ':' e with
     | [k; v; b] -> Hashtbl.replace funs_tbl (int_of_string k, v) (b = "1")
     | _ -> failwith "bad F entry") (split_on ',' (field fs "F"));
  let enc_tbl = Hashtbl.create 8 in
  List.iter (fun e -> match String.split_on_char ':' e with
     | [t; ev; vof; fo] -> Hashtbl.replace enc_tbl t (ev = "1", vof = "1", fo)
     | _ -> failwith "bad E entry") (split_on ',' (field fs "E"));
  let vfun k v =
    let key = (int_of_n k, hex_of_bytes v) in
    try Hashtbl.find funs_tbl key with Not_found -> raise (Missing ("F " ^ string_of_int (fst key) ^ ":" ^ snd key)) in
  let has_enc = field fs "enc" <> "-" in
  let enc_valid x = let (ev, _, _) = (try Hashtbl.find enc_tbl (hex_of_bytes x) with Not_found -> raise (Missing ("E " ^ hex_of_bytes x))) in ev in
  let enc_vof x = let (_, vof, fo) = (try Hashtbl.find enc_tbl (hex_of_bytes x) with Not_found -> raise (Missing ("E " ^ hex_of_bytes x))) in
    if vof then None else Some (bytes_of_hex fo) in
  let kind_of = function "1" -> TPair | "2" -> TAlone | "3" -> TAny | _ -> TInvalid in
  let tags = List.map (fun t ->
      match String.split_on_char ':' t with
      | name :: kind :: rest ->
          let attrs = match rest with
            | [a] -> List.map (fun x ->
                match String.index_opt x '~' with
                | Some p ->
                    let an = String.sub x 0 p and vk = String.sub x (p+1) (String.length x - p - 1) in
                    (bytes_of_hex an,
                     (if vk = "b" then VBool else if vk = "i" then VInt
                      else VFun (n_of_int (int_of_string (String.sub vk 1 (String.length vk - 1))))))
                | None -> failwith "bad attr") (split_on ',' a)
            | _ -> [] in
          ((bytes_of_hex name, kind_of kind), attrs)
      | _ -> failwith "bad tag") (split_on ';' (field fs "tags")) in
  let r = { c_xhtml = xhtml; c_comments = (field fs "c" = "1"); c_numeric = (field fs "n" = "1");
            c_entities = List.map bytes_of_hex (split_on ',' (field fs "ent")); c_tags = tags } in
  let x = bytes_of_hex (field fs "in") in
  let v = c_validate r vfun has_enc enc_valid x in
  let (fl, rm) = c_validate_and_filter r vfun has_enc enc_vof RemoveInvalid x in
  let (fl2, es) = c_validate_and_filter r vfun has_enc enc_vof EscapeInvalid x in
  let vrm = c_validate r vfun has_enc enc_valid rm in
  let ves = c_validate r vfun has_enc enc_valid es in
  "v=" ^ string_of_bool v ^ " fl=" ^ string_of_bool fl ^ " rm=" ^ hex_of_bytes rm ^ " es=" ^ hex_of_bytes es
  ^ " vrm=" ^ string_of_bool vrm ^ " ves=" ^ string_of_bool ves ^ (if fl <> fl2 then " MODEL-FLAGS-DIFFER" else ""))
