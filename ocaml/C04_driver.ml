(* C04 model driver.  Case line = the harness case line (m= c= n= enc= ent= fun= tags= repl= in=) followed by
   the oracle table printed by the harness: F=<k>:<valuehex>:<0|1>,..  E=<texthex>:<valid>:<vof>:<filteredhex>,.. (E is ignored: the encoding layer is modelled)
   A=<is_ascii_compatible>  U=<texthex>:<stop ok>:<to_utf stop hex>:<to_utf skip hex>,..  V=<utf8hex>:<ok>:<from_utf hex>,..
   Answer: v= fl= rm= es= vrm= ves=   (same fields as the harness prints before " | ") *)
exception Missing of string
let split_on c s = if s = "-" || s = "" then [] else String.split_on_char c s
let field fs k = try List.assoc k fs with Not_found -> "-"
let sel_cache : (n list, validator option) Hashtbl.t = Hashtbl.create 64
let re_cache : (string, re option) Hashtbl.t = Hashtbl.create 16
let () = main_loop (fun toks ->
  let fs = List.filter_map (fun t ->
    match String.index_opt t '=' with
    | Some p -> Some (String.sub t 0 p, String.sub t (p+1) (String.length t - p - 1))
    | None -> None) toks in
  let xhtml = field fs "m" <> "h" in
  let funs_tbl = Hashtbl.create 16 in
  List.iter (fun e -> match String.split_on_char ':' e with
     | [k; v; b] -> Hashtbl.replace funs_tbl (int_of_string k, v) (b = "1")
     | _ -> failwith "bad F entry") (split_on ',' (field fs "F"));
  let s_tbl = Hashtbl.create 16 in
  List.iter (fun e -> match String.split_on_char ':' e with
     | [k; v; b] -> Hashtbl.replace s_tbl (int_of_string k, v) (b = "1")
     | _ -> failwith "bad S entry") (split_on ',' (field fs "S"));
  let specs = Array.of_list (List.map (fun h -> let b = bytes_of_hex h in
      String.init (List.length b) (fun i -> Char.chr (int_of_n (List.nth b i)))) (split_on ',' (field fs "fun"))) in
  let starts_with p s = String.length s >= String.length p && String.sub s 0 (String.length p) = p in
  (* regex validators: answered by the table; URI validators: the model of uri_parser, only the scheme regular
     expression is answered by the table; the verdict is cross-checked against what the real validator said *)
  let vfun k v =
    let ki = int_of_n k in
    let key = (ki, hex_of_bytes v) in
    let spec = if ki < Array.length specs then specs.(ki) else "" in
    (* the scheme expression of a URI validator: full match of the scheme range, as booster::regex_match does it; a pattern of the
       family of DefsR.v is decided by the model and the answer of the real regular expression (S= table) is cross-checked *)
    let sre sc =
      let tbl = Hashtbl.find_opt s_tbl (ki, hex_of_bytes sc) in
      let pat = if spec = "uri" then "(http|https|ftp|mailto|news|nntp)"
                else if starts_with "uris:" spec then String.sub spec 5 (String.length spec - 5)
                else if starts_with "abs:" spec then String.sub spec 4 (String.length spec - 4) else "" in
      let pr = (match Hashtbl.find_opt re_cache ("S:" ^ pat) with
                | Some r -> r
                | None ->
                    let r = if pat = "" then None else parse_pattern (List.init (String.length pat) (fun i -> n_of_int (Char.code pat.[i]))) in
                    Hashtbl.replace re_cache ("S:" ^ pat) r; r) in
      match pr, tbl with
      | Some r, Some b -> let m = full_match r sc in
          if m <> b then failwith ("SCHEME-REGEX-MODEL-DIFFERS validator " ^ string_of_int ki ^ " scheme " ^ hex_of_bytes sc) else m
      | Some r, None -> full_match r sc
      | None, Some b -> b
      | None, None -> raise (Missing ("S " ^ string_of_int ki ^ ":" ^ hex_of_bytes sc)) in
    let ukind = if spec = "uri" || starts_with "uris:" spec then Some UBoth
                else if starts_with "abs:" spec then Some UFull
                else if spec = "rel" then Some URelative else None in
    match ukind with
    | None ->
        (* regex validators: a pattern of the family of coq/C04/DefsR.v is decided by the model (C20's derivative matcher on the
           parsed pattern: the WHOLE value must be in the language); the answer of the real regex_functor is only cross-checked.
           Patterns outside the family: answered by the table *)
        let table () = (try Hashtbl.find funs_tbl key with Not_found -> raise (Missing ("F " ^ string_of_int ki ^ ":" ^ snd key))) in
        if starts_with "re:" spec then begin
          let pr = (match Hashtbl.find_opt re_cache spec with
                    | Some r -> r
                    | None ->
                        let pat = String.sub spec 3 (String.length spec - 3) in
                        let r = parse_pattern (List.init (String.length pat) (fun i -> n_of_int (Char.code pat.[i]))) in
                        Hashtbl.replace re_cache spec r; r) in
          match pr with
          | Some r ->
              let m = full_match r v in
              (match Hashtbl.find_opt funs_tbl key with
               | Some b when b <> m -> failwith ("REGEX-MODEL-DIFFERS validator " ^ string_of_int ki ^ " value " ^ snd key)
               | _ -> m)
          | None -> table ()
        end else table ()
    | Some uk ->
        let m = uri_validate uk (if uk = URelative then (fun _ -> false) else sre) v in
        (match Hashtbl.find_opt funs_tbl key with
         | Some b when b <> m -> failwith ("URI-MODEL-DIFFERS validator " ^ string_of_int ki ^ " value " ^ snd key)
         | _ -> m) in
  (* the encoding layer is the model's own (coq/C04/DefsE.v over coq/C14/Defs.v), selected by the encoding name; the E= table of
     the harness (answers of the real encoding::valid / validate_or_filter) is not consulted *)
  let enc_name = (let e = field fs "enc" in if e = "-" then [] else
                  List.init (String.length e) (fun i -> n_of_int (Char.code e.[i]))) in
  let repl = n_of_int (int_of_string (field fs "repl")) in
  let compat = field fs "A" <> "0" in
  let u_tbl = Hashtbl.create 8 in
  List.iter (fun e -> match String.split_on_char ':' e with
     | [t; ok; st; sk] -> Hashtbl.replace u_tbl t (ok = "1", st, sk)
     | _ -> failwith "bad U entry") (split_on ',' (field fs "U"));
  let v_tbl = Hashtbl.create 8 in
  List.iter (fun e -> match String.split_on_char ':' e with
     | [t; ok; back] -> Hashtbl.replace v_tbl t (ok = "1", back)
     | _ -> failwith "bad V entry") (split_on ',' (field fs "V"));
  let u_find x = try Hashtbl.find u_tbl (hex_of_bytes x) with Not_found -> raise (Missing ("U " ^ hex_of_bytes x)) in
  let to_utf_stop x = let (ok, st, _) = u_find x in if ok then Some (bytes_of_hex st) else None in
  let to_utf_skip x = let (_, _, sk) = u_find x in bytes_of_hex sk in
  let from_utf_stop x =
    let (ok, back) = (try Hashtbl.find v_tbl (hex_of_bytes x) with Not_found -> raise (Missing ("V " ^ hex_of_bytes x))) in
    if ok then Some (bytes_of_hex back) else None in
  let kind_of = function "1" -> TPair | "2" -> TAlone | "3" -> TAny | _ -> TInvalid in
  let tags = List.map (fun t ->
      match String.split_on_char ':' t with
      | name :: kind :: rest ->
          let attrs = match rest with
            | [a] -> List.map (fun x ->
                match String.index_opt x '~' with
                | Some p ->
                    let an = String.sub x 0 p and vk = String.sub x (p+1) (String.length x - p - 1) in
                    (bytes_of_hex an,
                     (if vk = "b" then VBool else if vk = "i" then VInt
                      else VFun (n_of_int (int_of_string (String.sub vk 1 (String.length vk - 1))))))
                | None -> failwith "bad attr") (split_on ',' a)
            | _ -> [] in
          ((bytes_of_hex name, kind_of kind), attrs)
      | _ -> failwith "bad tag") (split_on ';' (field fs "tags")) in
  let r = { c_xhtml = xhtml; c_comments = (field fs "c" = "1"); c_numeric = (field fs "n" = "1");
            c_entities = List.map bytes_of_hex (split_on ',' (field fs "ent")); c_tags = tags } in
  let x = bytes_of_hex (field fs "in") in
  (* validate_sel / validate_and_filter_sel = validate_e / validate_and_filter_e at (has_encoding name, lookup name)
     (Props.v: lookup_once); the look-up is done once per encoding name *)
  let he = has_encoding enc_name in
  let sel = (match Hashtbl.find_opt sel_cache enc_name with
             | Some s -> s
             | None -> let s = lookup enc_name in Hashtbl.replace sel_cache enc_name s; s) in
  let v = c_validate_sel r vfun he sel to_utf_stop x in
  let (fl, rm) = c_validate_and_filter_sel r vfun he sel repl to_utf_stop to_utf_skip from_utf_stop RemoveInvalid x in
  let (fl2, es) = c_validate_and_filter_sel r vfun he sel repl to_utf_stop to_utf_skip from_utf_stop EscapeInvalid x in
  let vrm = c_validate_sel r vfun he sel to_utf_stop rm in
  let ves = c_validate_sel r vfun he sel to_utf_stop es in
  "v=" ^ string_of_bool v ^ " fl=" ^ string_of_bool fl ^ " rm=" ^ hex_of_bytes rm ^ " es=" ^ hex_of_bytes es
  ^ " vrm=" ^ string_of_bool vrm ^ " ves=" ^ string_of_bool ves ^ (if fl <> fl2 then " MODEL-FLAGS-DIFFER" else "") ^ (if enc_name <> [] && compat <> (sel <> None) then " MODEL-COMPAT-DIFFERS" else ""))
