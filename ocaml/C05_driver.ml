(* C05 model driver.  One scenario per line (see checks/C05.py for the grammar).  The cryptographic
   primitives of the model (Section variables hmac, E, D) are instantiated with lookups into the tables
   that the implementation harness printed for this scenario; a query that is not in the table raises
   (the model asked for a MAC / block the implementation path has no reason to compute). *)
let bytes_of_string (s : string) : n list =
  let rec go i acc = if i < 0 then acc else go (i-1) (byte_tab.(Char.code s.[i]) :: acc) in
  go (String.length s - 1) []
let hexdig = "0123456789abcdef"
let hexs (l : n list) : string =
  if l = [] then "-" else begin
    let b = Buffer.create 128 in
    List.iter (fun x -> let v = int_of_n x land 0xff in Buffer.add_char b hexdig.[v lsr 4]; Buffer.add_char b hexdig.[v land 15]) l;
    Buffer.contents b end
(* decimal strings <-> Coq Z without going through OCaml int (time_t covers the whole 64-bit range) *)
let z10 = z_of_int 10
let z_of_string (s : string) : z =
  let neg = String.length s > 0 && s.[0] = '-' in
  let acc = ref Z0 in
  String.iteri (fun i c -> if i = 0 && neg then () else acc := z_add (z_mul !acc z10) (z_of_int (Char.code c - 48))) s;
  if neg then z_opp !acc else !acc
let string_of_z (v : z) : string =
  if v = Z0 then "0" else begin
    let neg = z_ltb v Z0 in
    let cur = ref (if neg then z_opp v else v) in
    let b = Buffer.create 24 in
    while !cur <> Z0 do
      let (q, r) = z_quotrem !cur z10 in
      Buffer.add_char b (Char.chr (48 + int_of_z r)); cur := q
    done;
    let s = Buffer.contents b in
    let n = String.length s in
    (if neg then "-" else "") ^ String.init n (fun i -> s.[n-1-i]) end
let split_on c s = String.split_on_char c s
let dl = [|16;20;28;32;48;64|]
let dlen_f a = let i = int_of_n a in if i < 6 then nat_of_int dl.(i) else nat_of_int 0

let run_line toks =
  let htbl : (string, n list) Hashtbl.t = Hashtbl.create 64 in
  let etbl : (string, n list) Hashtbl.t = Hashtbl.create 64 in
  let dtbl : (string, n list) Hashtbl.t = Hashtbl.create 64 in
  List.iter (fun t ->
    if String.length t > 2 && t.[1] = '=' then begin
      let body = String.sub t 2 (String.length t - 2) in
      match t.[0], split_on ',' body with
      | 'H', [a; k; m; tag] -> Hashtbl.replace htbl (a ^ "," ^ k ^ "," ^ m) (bytes_of_hex tag)
      | 'B', [k; x; y] -> Hashtbl.replace etbl (k ^ "," ^ x) (bytes_of_hex y); Hashtbl.replace dtbl (k ^ "," ^ y) (bytes_of_hex x)
      | _ -> ()
    end) toks;
  let hmac a k m =
    let key = string_of_int (int_of_n a) ^ "," ^ hexs k ^ "," ^ hexs m in
    match Hashtbl.find_opt htbl key with Some t -> t | None -> failwith ("no-hmac-prim " ^ String.sub key 0 (min 60 (String.length key))) in
  let e k x = match Hashtbl.find_opt etbl (hexs k ^ "," ^ hexs x) with Some y -> y | None -> failwith "no-E-prim" in
  let d k y = match Hashtbl.find_opt dtbl (hexs k ^ "," ^ hexs y) with Some x -> x | None -> failwith "no-D-prim" in
  let raw_of_token tok =
    match split_on '/' tok with
    | ["hmac"; a; k] -> RHmac (bytes_of_string a, bytes_of_hex k)
    | ["aes"; c; ck; m; mk] -> RAes (bytes_of_string c, bytes_of_hex ck, bytes_of_string m, bytes_of_hex mk)
    | ["aesk"; nme; k] -> RAesK (bytes_of_string nme, bytes_of_hex k)
    | _ -> failwith "bad cfg token" in
  let zeros16 = bytes_of_hex "00000000000000000000000000000000" in
  let show_verdict pool v =
    match v with
    | Accept (data, t) ->
        if pool then "A," ^ hexs data ^ ",0"
        else "A," ^ hexs data ^ "," ^ string_of_z t ^ ",0"
    | Reject c -> "R," ^ (if c then "1" else "0") in
  let load_p pool p now cookie =
    match p with
    | PrepOk c -> show_verdict pool (cookies_load hmac dlen_f d c now zeros16 cookie)
    | PrepErr (_, _) -> (match load_unusable cookie with Verdict v -> show_verdict pool v | Throws -> "EXC") in
  let valof t = let i = String.index t '=' in String.sub t (i+1) (String.length t - i - 1) in
  match toks with
  | "scn" :: ca :: cb :: nowt :: rest ->
      let pa = prepare hmac dlen_f (raw_of_token ca) in
      (match pa with
       | PrepErr (_, false) -> "cfgerrA"
       | _ ->
      let pb = if cb = "=" then pa else prepare hmac dlen_f (raw_of_token cb) in
      (match pb with
       | PrepErr (_, false) -> "cfgerrB"
       | _ ->
      let now = ref (z_of_string (valof nowt)) in
      (* encryptor objects of side A: explicit state (iv_enc, iv_dec); the nonce of object k is the decryption of
         the first cipher block of the first cookie it issued (token C0@k=), given before the operations *)
      let nonces : (int, n list) Hashtbl.t = Hashtbl.create 8 in
      List.iter (fun t ->
        if String.length t > 3 && String.sub t 0 3 = "C0@" then begin
          let i = String.index t '=' in
          let k = int_of_string (String.sub t 3 (i - 3)) in
          (match pa with PrepOk (CAes (ck, _, _)) -> Hashtbl.replace nonces k (d ck (bytes_of_hex (valof t))) | _ -> ())
        end) rest;
      let fresh k = { iv_enc = (match Hashtbl.find_opt nonces k with Some v -> v | None -> zeros16); iv_dec = zeros16; iv_init = true } in
      let objs : (int, cbcobj) Hashtbl.t = Hashtbl.create 8 in
      let nobj = ref 1 in
      let cur = ref 0 in
      Hashtbl.replace objs 0 (fresh 0);
      let objb = ref { iv_enc = zeros16; iv_dec = zeros16; iv_init = true } in
      let out = Buffer.create 256 in
      Buffer.add_string out "ok";
      List.iter (fun t ->
        if String.length t > 4 && String.sub t 0 4 = "now=" then now := z_of_string (valof t)
        else if t = "new" then begin Hashtbl.replace objs !nobj (fresh !nobj); cur := !nobj; incr nobj end
        else if String.length t > 4 && String.sub t 0 4 = "obj:" then cur := int_of_string (String.sub t 4 (String.length t - 4))
        else if String.length t > 2 && (String.sub t 0 2 = "S:" || String.sub t 0 2 = "X:") then begin
          let q = split_on ':' t in
          (match pa with
           | PrepErr (_, _) -> Buffer.add_string out (" " ^ String.make 1 t.[0] ^ "=EXC")
           | PrepOk c ->
               let o = Hashtbl.find objs !cur in
               if t.[0] = 'S' then begin
                 let (ck, o') = cookies_obj_save hmac e c o (bytes_of_hex (List.nth q 1)) (z_of_string (List.nth q 2)) in
                 Hashtbl.replace objs !cur o'; Buffer.add_string out (" S=" ^ hexs ck)
               end else begin
                 (* encryptor::encrypt directly: the plaintext is the 8-byte expiry and the data *)
                 let pl = bytes_of_hex (List.nth q 1) in
                 let (ci, st') = encrypt hmac e c o.iv_enc pl in
                 Hashtbl.replace objs !cur { o with iv_enc = st' };
                 Buffer.add_string out (" X=" ^ hexs (n_of_int 67 :: encode_str ci))
               end)
        end
        else if String.length t > 2 && String.sub t 0 2 = "L=" then begin
          let cookie = bytes_of_hex (valof t) in
          (match pb with
           | PrepOk c ->
               let o = if cb = "=" then Hashtbl.find objs !cur else !objb in
               let (v, o') = cookies_obj_load hmac dlen_f d c !now o cookie in
               if cb = "=" then Hashtbl.replace objs !cur o' else objb := o';
               Buffer.add_string out (" L=" ^ show_verdict false v)
           | PrepErr (_, _) -> Buffer.add_string out (" L=" ^ load_p false pb !now cookie))
        end
        else ()) rest;
      Buffer.contents out))
  | "cbc" :: name :: key :: rest ->
      let k = bytes_of_hex key in
      (match cbc_key_size (bytes_of_string name) with
       | None -> "nocbc"
       | Some sz ->
         if int_of_nat sz <> List.length k then "keyerr" else begin
           let ne : (int, n list) Hashtbl.t = Hashtbl.create 4 in
           let nd : (int, n list) Hashtbl.t = Hashtbl.create 4 in
           List.iter (fun t ->
             if String.length t > 3 && (String.sub t 0 2 = "NE" || String.sub t 0 2 = "ND") && String.contains t '=' then begin
               let i = String.index t '=' in
               let j = int_of_string (String.sub t 2 (i - 2)) in
               Hashtbl.replace (if t.[1] = 'E' then ne else nd) j (bytes_of_hex (valof t)) end) rest;
           let o = ref obj_fresh in
           let nn = ref 0 in
           let out = Buffer.create 256 in
           Buffer.add_string out "ok";
           List.iter (fun t ->
             let op =
               if t = "N" then begin
                 let j = !nn in incr nn;
                 Some ('N', ONonce ((match Hashtbl.find_opt ne j with Some v -> v | None -> zeros16),
                                    (match Hashtbl.find_opt nd j with Some v -> v | None -> zeros16))) end
               else if String.length t >= 2 && t.[1] = ':' && (t.[0] = 'I' || t.[0] = 'E' || t.[0] = 'D') then begin
                 let v = bytes_of_hex (String.sub t 2 (String.length t - 2)) in
                 Some (t.[0], (match t.[0] with 'I' -> OSetIv v | 'E' -> OEnc v | _ -> ODec v)) end
               else None in
             match op with
             | None -> ()
             | Some (tag, op) ->
                 let (res, o') = obj_step e d k !o op in
                 o := o';
                 Buffer.add_string out (" " ^ String.make 1 tag ^ "=" ^
                   (match res with ONoOut -> "ok" | OThrow -> "EXC" | OOut l -> hexs l))) rest;
           Buffer.contents out end)
  | "pool" :: rest ->
      let get k = List.fold_left (fun acc t ->
        let p = k ^ "=" in
        if acc = None && String.length t >= String.length p && String.sub t 0 (String.length p) = p then Some (valof t) else acc) None rest in
      let geth k = match get k with Some v -> bytes_of_hex v | None -> [] in
      let now0 = z_of_string (match get "now" with Some v -> v | None -> "0") in
      let timeout = z_of_string (match get "timeout" with Some v -> v | None -> "0") in
      let errname c = (match int_of_n c with
        | 1 -> "nomethod" | 2 -> "both" | 3 -> "nomac" | 4 -> "unknown" | 5 -> "aeskeylen" | 6 -> "aesalgo"
        | 7 -> "badhex" | 8 -> "hmackeyshort" | 9 -> "cbckeysize" | 10 -> "badhash" | 11 -> "keyfileempty" | _ -> "other") in
      let ksrc name = (match get (name ^ "file") with Some v -> KFile (bytes_of_hex v) | None -> KHex (geth name)) in
      (match pool_config (geth "enc") (geth "mac") (geth "cbc") (ksrc "key") (ksrc "hkey") (ksrc "ckey") with
       | Inl (PrepErr (c, _)) -> "cfgerr:" ^ errname c
       | Inl (PrepOk _) -> "MODEL-BUG"
       | Inr r ->
         (match prepare hmac dlen_f r with
          | PrepErr (c, false) -> (match r with RAesK (_, _) -> "cfgerr:" ^ errname c | _ -> "useerr:" ^ errname c)
          | PrepErr (c, true) -> "useerr:" ^ errname c
          | PrepOk c ->
            let kvs = match get "kv" with None -> [] | Some s ->
              List.filter_map (fun kv -> match split_on ':' kv with [k; v] -> Some (bytes_of_hex k, bytes_of_hex v) | _ -> None) (split_on ';' s) in
            let st = (match get "C0", c with Some v, CAes (ck, _, _) -> d ck (bytes_of_hex v) | _, _ -> zeros16) in
            let data = session_save_data kvs in
            let ck = if kvs = [] then [] else fst (cookies_save hmac e c st data (z_add now0 timeout)) in
            let out = Buffer.create 256 in
            Buffer.add_string out ("ok S=" ^ (if kvs = [] then "-" else hexs ck));
            let now = ref now0 in
            let seen_now = ref false in
            let how = n_of_int (match get "expire" with Some "renew" -> 1 | Some "browser" -> 2 | _ -> 0) in
            List.iter (fun t ->
              if String.length t > 4 && String.sub t 0 4 = "now=" then begin
                if !seen_now then now := z_of_string (valof t) else seen_now := true end
              else if String.length t > 2 && String.sub t 0 2 = "L=" then
                Buffer.add_string out (" L=" ^ load_p true (PrepOk c) !now (bytes_of_hex (valof t)))
              else if String.length t > 2 && String.sub t 0 2 = "Q=" then begin
                (* Q=<cookie hex>~<k:v;k:v>~<first cipher block of the issued cookie or -> : one request on a NEW
                   encryptor object: load (decrypt), set, save (encrypt) *)
                (match split_on '~' (valof t) with
                 | [ckh; kvspec; c0] ->
                   let cookie = bytes_of_hex ckh in
                   let sets = List.filter_map (fun kv -> match split_on ':' kv with [k; v] -> Some (bytes_of_hex k, bytes_of_hex v) | _ -> None) (split_on ';' kvspec) in
                   let nonce = (match c0, c with
                     | "-", _ -> zeros16
                     | v, CAes (ck, _, _) -> d ck (bytes_of_hex v)
                     | _, _ -> zeros16) in
                   let o = { iv_enc = nonce; iv_dec = zeros16; iv_init = true } in
                   let (v, o1) = cookies_obj_load hmac dlen_f d c !now o cookie in
                   let loaded = (match v with
                     | Accept (data, tin) ->
                         (match session_load_data (nat_of_int (List.length data)) data [] with
                          | Some l -> Some (Some (l, tin))
                          | None -> None)
                     | Reject _ -> Some None) in
                   (match loaded with
                    | None -> Buffer.add_string out " Q=EXC"
                    | Some ld ->
                      let base = (match ld with Some (l, _) -> l | None -> []) in
                      let data' = kv_set_all sets base in
                      let issued = (match si_save_decide how timeout !now ld data' with
                        | None -> "-"
                        | Some exp -> hexs (fst (cookies_obj_save hmac e c o1 (session_save_data data') exp))) in
                      Buffer.add_string out (" Q=" ^ (match ld with Some _ -> "1" | None -> "0") ^ "," ^
                        (match ld with Some (l, _) -> hexs (session_save_data l) | None -> "-") ^ "," ^
                        (match v with Reject true -> "1" | _ -> "0") ^ "," ^ issued))
                 | _ -> Buffer.add_string out " Q=BADSPEC")
              end
              else ()) rest;
            Buffer.contents out))
  | "kat" :: _ -> "ok"
  | "katseq" :: _ -> "ok"
  | _ -> "BAD-CASE"

let () = main_loop run_line
