(* C02 model driver: same case lines as harness/C02_service.cpp; only the S:/s: steps matter to the model
   (HTTP: the list of segments; SCGI/FastCGI: their concatenation) *)
let app_name = function AppSync -> "s" | AppAsync -> "a" | AppUp -> "u" | AppUpm -> "m" | AppProbe -> "p" | AppUpA -> "x" | AppUpT -> "t"
let item_str = function
  | IOk a -> "OK:" ^ app_name a
  | IStatus c -> "ST" ^ string_of_int (int_of_z c)
  | IRaw400 -> "RAW400"
  | IGetValues l -> "GV" ^ String.concat "" (List.map (fun x -> string_of_int (int_of_n x)) l)
  | IUnknownRole -> "UR"
  | IEnd -> "END"
  | IUnsafe -> "UNSAFE"
  | IUnmodelled -> "UNMODELLED"
  | IFuel -> "FUEL"
let show (l, c) =
  String.concat " " (List.map item_str l) ^
  Printf.sprintf " | calls=%d,%d,%d,%d,%d,%d,%d" (int_of_z c.c_sync) (int_of_z c.c_async) (int_of_z c.c_setup)
    (int_of_z c.c_main) (int_of_z c.c_err) (int_of_z c.c_end) (int_of_z c.c_abort)
let segs toks =
  List.filter_map (fun t ->
    if String.length t >= 2 && (t.[0] = 'S' || t.[0] = 's') && t.[1] = ':' then
      Some (bytes_of_hex (String.sub t 2 (String.length t - 2))) else None) toks

(* string_map / string_pool direct harness (harness/C02_smap.cpp): ops
     a:<hexkey>:<hexvalue>  add      g:<hexkey>  get      c  clear      i  iterate begin()..end()      d  size,total,occupied
     T  trace the pool (where each string was put, SPool.v padd)     p  pool state
   keys and values are C strings: cut at the first NUL like the code does *)
let rec cut0 = function [] -> [] | x :: t -> if int_of_n x = 0 then [] else x :: cut0 t
let smap_case toks =
  let m = ref (Some smap_empty) and hist = ref [] and out = Buffer.create 256 in
  let pool = ref pool0 and trace = ref false in
  let hshow ((i, off), _) = Printf.sprintf "%d.%d" (int_of_nat i) (int_of_n off) in
  List.iter (fun t ->
    match !m with
    | None -> ()
    | Some mm ->
      if t = "c" then (m := Some (smap_clear mm); hist := SClear :: !hist; pool := pclear !pool)
      else if t = "T" then trace := true
      else if t = "p" then
        Buffer.add_string out (Printf.sprintf "P%d,%d,%d " (List.length (!pool).pages) (int_of_nat (!pool).cur) (int_of_n (!pool).free))
      else if t = "d" then
        Buffer.add_string out (Printf.sprintf "D%d,%d,%d " (int_of_nat (cap mm)) (int_of_nat (total mm))
          (List.length (List.filter (fun s -> s <> None) (slots mm))))
      else if t = "i" then begin
        Buffer.add_string out "I";
        List.iter2 (fun p e -> match e with
          | Some e -> Buffer.add_string out (Printf.sprintf "%d:%s=%s," (int_of_nat p) (hex_of_bytes e.ekey) (hex_of_bytes e.evalue))
          | None -> Buffer.add_string out (Printf.sprintf "%d:EMPTY," (int_of_nat p))) (chain mm) (smap_iter mm);
        Buffer.add_char out ' ' end
      else match String.split_on_char ':' t with
        | ["a"; k; v] ->
            let k = cut0 (bytes_of_hex k) and v = cut0 (bytes_of_hex v) in
            hist := SAdd (k, v) :: !hist;
            let (hk, p1) = padd k !pool in
            let (hv, p2) = padd v p1 in
            pool := p2;
            if !trace then Buffer.add_string out ("@" ^ hshow hk ^ "/" ^ hshow hv ^ " ");
            (match smap_add mm k v with
             | Some m2 -> m := Some m2
             | None -> m := None; Buffer.add_string out "HANG")
        | ["g"; k] ->
            let k = cut0 (bytes_of_hex k) in
            let r = smap_get mm k in
            (* the closed form proved equal to smap_get (smap_get_spec) is evaluated alongside: a disagreement is printed *)
            let show = function GFound v -> "=" ^ hex_of_bytes v | GAbsent -> "~" | GHang -> "HANG" in
            let r2 = spec_get (List.rev !hist) k in
            Buffer.add_string out (show r ^ (if r2 <> r then "!SPEC" ^ show r2 else "") ^ " ");
            if r = GHang then m := None
        | _ -> Buffer.add_string out "BAD-OP ") toks;
  String.trim (Buffer.contents out)
let () = main_loop (function
  | "smap" :: toks -> smap_case toks
  | "http" :: toks -> show (http_run (segs toks))
  | "scgi" :: toks -> show (scgi_run (List.concat (segs toks)))
  | "fcgi" :: toks -> show (fcgi_run (List.concat (segs toks)))
  | ["atoll"; h] -> string_of_int (int_of_z (atoll (bytes_of_hex h)))
  | ["scgiclass"; h] -> if scgi_unterminated_class (bytes_of_hex h) then "1" else "0"
  | _ -> "BAD-CASE")
