(* C02 model driver: same case lines as harness/C02_service.cpp; only the S:/s: steps matter to the model
   (HTTP: the list of segments; SCGI/FastCGI: their concatenation) *)
let app_name = function AppSync -> "s" | AppAsync -> "a" | AppUp -> "u" | AppUpm -> "m" | AppProbe -> "p" | AppUpA -> "x" | AppUpT -> "t"
let item_str = function
  | IOk a -> "OK:" ^ app_name a
  | IStatus c -> "ST" ^ string_of_int (int_of_z c)
  | IRaw400 -> "RAW400"
  | IGetValues l -> "GV" ^ String.concat "" (List.map (fun x -> string_of_int (int_of_n x)) l)
  | IUnknownRole -> "UR"
  | IEnd -> "END"
  | IUnsafe -> "UNSAFE"
  | IUnmodelled -> "UNMODELLED"
  | IFuel -> "FUEL"
let show (l, c) =
  String.concat " " (List.map item_str l) ^
  Printf.sprintf " | calls=%d,%d,%d,%d,%d,%d,%d" (int_of_z c.c_sync) (int_of_z c.c_async) (int_of_z c.c_setup)
    (int_of_z c.c_main) (int_of_z c.c_err) (int_of_z c.c_end) (int_of_z c.c_abort)
let segs toks =
  List.filter_map (fun t ->
    if String.length t >= 2 && (t.[0] = 'S' || t.[0] = 's') && t.[1] = ':' then
      Some (bytes_of_hex (String.sub t 2 (String.length t - 2))) else None) toks
let () = main_loop (function
  | "http" :: toks -> show (http_run (segs toks))
  | "scgi" :: toks -> show (scgi_run (List.concat (segs toks)))
  | "fcgi" :: toks -> show (fcgi_run (List.concat (segs toks)))
  | ["atoll"; h] -> string_of_int (int_of_z (atoll (bytes_of_hex h)))
  | ["scgiclass"; h] -> if scgi_unterminated_class (bytes_of_hex h) then "1" else "0"
  | _ -> "BAD-CASE")
