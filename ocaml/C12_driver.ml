(* C12 model driver: same line protocol as harness/C12_multipart.cpp *)
let arr_of_list l = Array.of_list l
let sub_list (a : n array) lo hi = let rec go i acc = if i < lo then acc else go (i-1) (a.(i) :: acc) in go (hi-1) []
let parse_cuts (c : string) (n : int) : int list =
  let ends =
    if c = "-" then []
    else if c.[0] = 'b' then begin
      let k = max 1 (int_of_string (String.sub c 1 (String.length c - 1))) in
      let rec go o acc = if o < n then go (o+k) (o :: acc) else List.rev acc in go k [] end
    else begin
      let toks = String.split_on_char ',' c in
      let rec go ts last acc = match ts with
        | [] -> List.rev acc
        | t :: r -> let o = int_of_string t in if o > 0 && o < n && o > last then go r o (o :: acc) else go r last acc in
      go toks 0 [] end in
  ends @ [n]
let chunks_of (body : n list) (ends : int list) : n list list =
  let a = arr_of_list body in
  let rec go lo es = match es with [] -> [] | e :: r -> sub_list a lo e :: go e r in
  go 0 ends
let lim_of_mem mem = if mem < 0 then 0 else mem
let file_txt (f : pfile) =
  " " ^ hex_of_bytes (f_name f) ^ " " ^ hex_of_bytes (f_filename f) ^ " " ^ hex_of_bytes (f_mime f) ^ " " ^ hex_of_bytes (List.rev (f_rdata f))
(* resource model (coq/C12/ResDefs.v): (open descriptors, directory entries) at the four observation points *)
let pr (a, b) = (int_of_n a, int_of_n b)
let parse_acts (s : string) : act list =
  if s = "-" || s = "" then [] else
  List.filter_map (fun a ->
    if String.length a < 2 then None else
    let k = nat_of_int (int_of_string (String.sub a 1 (String.length a - 1))) in
    match a.[0] with 'c' -> Some (AClose k) | 's' -> Some (ASave k) | 'p' | 'P' -> Some (APerm k) | 'k' -> Some (AKeep k) | _ -> None)
    (String.split_on_char '.' s)
let status_txt = function PEof -> "eof" | PError -> "error" | PIncomplete -> "incomplete" | PEarlyEof -> "earlyeof" | PFuel -> "MODEL-FUEL"
let tev_txt = function TM -> "M" | TP k -> "P" ^ string_of_int (int_of_n k) | TR k -> "R" ^ string_of_int (int_of_n k)
  | TC -> "C" | TE -> "E" | TX -> "X"
let cur_txt (s : pstate) =
  if ready s then let f = cur s in
    hex_of_bytes (f_name f) ^ ":" ^ hex_of_bytes (f_filename f) ^ ":" ^ hex_of_bytes (f_mime f) ^ ":" ^ string_of_int (int_of_n (f_size f))
  else "none"
(* (status, nfiles, files text, cur text, tmp alive, trace) *)
let run mem key body ends =
  let bnd = make_boundary key in
  let ((stt, s), rtr) = drive bnd init_state (chunks_of body ends) [] in
  let files = List.rev (rfiles s) in
  let lim = lim_of_mem mem in
  (* whatever the status: the parser with its files is dropped here, as an aborted request drops it *)
  let lc = lifecycle (n_of_int lim) files (if ready s then Some (cur s) else None) HAborted in
  let (fd_alive, alive) = pr (l_start lc) in
  let (fd_after, after) = pr (l_destroyed lc) in
  let alive = if fd_alive <> alive || fd_after <> 0 || after <> 0 then -1 else alive in
  (status_txt stt, List.length files, String.concat "" (List.map file_txt files), cur_txt s, alive,
   (if rtr = [] then "-" else String.concat "," (List.rev_map tev_txt rtr)))
let cls s = if s = "earlyeof" then "error" else s
(* the request through the whole service (harness/C12_service.cpp) *)
let entry_txt (f : pfile) = hex_of_bytes (f_name f) ^ "," ^ hex_of_bytes (f_filename f) ^ "," ^ hex_of_bytes (f_mime f) ^ "," ^ hex_of_bytes (List.rev (f_rdata f))
let run_rq ?(rf=false) ?(acts="-") mode cl mp mem declared ct body =
  let l = { content_length_limit = n_of_int cl; multipart_limit = n_of_int mp } in
  let ab = if mode.[0] = 'a' then int_of_string (String.sub mode 1 (String.length mode - 1)) else 0 in
  let r = if mode.[0] = 'a' then request_service_ab l (n_of_int ab) ct (nat_of_int declared) body
          else request_service l (mode = "r") ct (nat_of_int declared) body in
  let st = int_of_n r.sv_status in
  let filt = declared > 0 && (mode = "m" || mode = "r" || mode.[0] = 'a' || mode.[0] = 'R') in
  let rmode_of = function 'a' -> RAll | 'p' -> RPart | 'e' -> REnd | 'm' -> RMid | 's' -> RStream | _ -> RNone in
  let is_r = String.length mode = 4 && mode.[0] = 'R' in
  (* a reading filter: the stream state each part is left in, and what on_data_ready saw *)
  let through (f : pfile) = part_through_filter (rmode_of mode.[1]) (rmode_of mode.[3]) (List.rev (f_rdata f)) in
  let post_pairs =
    if is_r then List.map (fun f -> (f_name f, post_value (List.rev (f_rdata f)) (fst (through f)))) (List.filter (fun f -> not (has_mime f)) r.sv_entries)
    else deliver_post r.sv_entries in
  let pairs = List.map (fun (k, v) -> hex_of_bytes k ^ "=" ^ hex_of_bytes v) (post_pairs @ r.sv_pairs) in
  let pairs = List.sort compare pairs in
  let files = List.map entry_txt (deliver_files r.sv_entries) in
  let fv = r.sv_fev in
  let entry_r (f : pfile) = hex_of_bytes (f_name f) ^ "," ^ hex_of_bytes (f_filename f) ^ "," ^ hex_of_bytes (f_mime f) ^ "," ^
    (if mode.[3] = 'a' || mode.[3] = 's' then hex_of_bytes (snd (through f)) else "*") in
  let rd = List.rev_map (if is_r then entry_r else entry_txt) fv.rreadyd in
  let hand = if not is_r then 0 else List.length (List.filter (fun f -> let d = List.rev (f_rdata f) in handed d (fst (through f)) <> d) (deliver_files r.sv_entries)) in
  let is_m = mode = "m" || mode.[0] = 'a' || mode.[0] = 'R' in
  let lc = if st = 200 then lifecycle (n_of_int mem) r.sv_entries None (HReady (parse_acts acts))
           else lifecycle (n_of_int mem) [] None HRefused in
  let (o1, d1) = if st = 200 then pr (l_start lc) else (0, 0) in
  let (o2, d2) = if st = 200 then pr (l_app_end lc) else (0, 0) in
  let (o3, d3) = pr (l_destroyed lc) in
  let (o4, d4) = pr (l_released lc) in
  Printf.sprintf "%s %s P %d%s F %d%s L new=%d ready=%d%s end=%d err=%d raw=%s tmp=%d,%d fd=%d,%d%s" (if rf then "rf" else "rq")
    (if st = 0 then "none" else if st = 599 then "MODEL-FUEL" else string_of_int st)
    (List.length pairs) (String.concat "" (List.map (fun x -> " " ^ x) pairs))
    (List.length files) (String.concat "" (List.map (fun x -> " " ^ x) files))
    (if is_m then int_of_n fv.n_new else 0)
    (if is_m then List.length rd else 0) (if is_m && rd <> [] then ":" ^ String.concat ";" rd else "")
    (if filt && st = 200 then 1 else 0) (if filt && st <> 200 && st <> 403 then 1 else 0)
    (hex_of_bytes (if mode = "r" && st <> 413 then r.sv_raw else []))
    d1 d4 o1 o4
    ((if is_r then Printf.sprintf " hand=%d" (if st = 200 then hand else 0) else "") ^ (if rf then Printf.sprintf " R %d,%d;%d,%d" o2 d2 o3 d3 else ""))
let () = main_loop (fun toks -> match (match toks with
    | ["mp"; a; b; c; d; _] -> ["mp"; a; b; c; d] | ["all2"; a; b; c; _] -> ["all2"; a; b; c]
    | ["rq"; a; b; c; d; e; f; g; h; i; _] -> ["rq"; a; b; c; d; e; f; g; h; i]
    | ["rf"; a; b; c; d; e; f; g; h; i; j; _] -> ["rf"; a; b; c; d; e; f; g; h; i; j] | t -> t) with
  | ["gq"; q] | ["gq"; q; _] ->
      let pairs = List.sort compare (List.map (fun (k, v) -> hex_of_bytes k ^ "=" ^ hex_of_bytes v) (get_query (bytes_of_hex q))) in
      Printf.sprintf "gq 200 G %d%s" (List.length pairs) (String.concat "" (List.map (fun x -> " " ^ x) pairs))
  | ["rf"; mode; cl; mp; mem; _; declared; ct; _; body; acts] ->
      run_rq ~rf:true ~acts mode (int_of_string cl) (int_of_string mp) (int_of_string mem) (int_of_string declared) (bytes_of_hex ct) (bytes_of_hex body)
  | ["rq"; mode; cl; mp; mem; _; declared; ct; _; body] ->
      run_rq mode (int_of_string cl) (int_of_string mp) (int_of_string mem) (int_of_string declared) (bytes_of_hex ct) (bytes_of_hex body)
  | ["mp"; mem; ct; cuts; body] ->
      let mem = int_of_string mem in
      let body = bytes_of_hex body in
      (match ct_boundary (bytes_of_hex ct) with
       | FOk [] -> "mp refused"
       | FOk key ->
           let n = List.length body in
           let (stt, nf, ft, ct, alive, tr) = run mem key body (parse_cuts cuts n) in
           Printf.sprintf "mp %s %d%s cur=%s T %s tmp=%d,0 fd=%d,0" stt nf ft ct tr alive alive
       | _ -> "mp MODEL-FUEL")
  | ["fi"; mem; ct; cuts; body; faults] | ["fi"; mem; ct; cuts; body; faults; _] ->
      let mem = int_of_string mem in
      let body = bytes_of_hex body in
      (match ct_boundary (bytes_of_hex ct) with
       | FOk [] -> "fi refused"
       | FOk key ->
           let n = List.length body in
           let bnd = make_boundary key in
           let ((stt, s), _) = drive bnd init_state (chunks_of body (parse_cuts cuts n)) [] in
           let files = List.rev (rfiles s) in
           let all = files @ (if ready s then [cur s] else []) in
           let q = ref None and ofail = ref false and sfail = ref false and cfail = ref false in
           List.iter (fun t -> if t <> "" && t <> "-" then match t.[0] with
             | 'q' -> q := Some (n_of_int (int_of_string (String.sub t 1 (String.length t - 1))))
             | 'o' -> ofail := true | 's' -> sfail := true | 'c' -> cfail := true | _ -> ()) (String.split_on_char '.' faults);
           let lim = n_of_int (lim_of_mem mem) in
           let fr = write_entries_q lim !q !ofail !sfail all in
           (* without a failing write the last element of `all` may be the entry in progress: it is not synced *)
           let failed = fr.fr_failed in
           let done_objs, curo =
             if failed then (fr.fr_done, fr.fr_cur)
             else if ready s then
               (* recompute: completed entries synced, the one in progress written only *)
               let frd = write_entries_q lim !q !ofail !sfail files in
               let frc = write_entries_q lim !q !ofail false [cur s] in
               (frd.fr_done, (match frc.fr_done with (o, _) :: _ -> Some o | [] -> None))
             else (fr.fr_done, None) in
           let ndone = List.length done_objs in
           let names = List.filteri (fun i _ -> i < ndone) all in
           let ent = String.concat "" (List.map2 (fun f (o, ok) ->
             let sz = int_of_n (fo_size o) in
             Printf.sprintf " %s:%d:%d" (hex_of_bytes (f_name f)) sz (if ok then sz else 0)) names done_objs) in
           let objs = List.map fst done_objs @ (match curo with Some o -> [o] | None -> []) in
           let after = destroy_all_q !q !sfail !cfail objs in
           Printf.sprintf "fi %s %d%s cur=%s tmp=%d,%d fd=%d,%d" (if failed then "noroom" else status_txt stt) ndone ent
             (match curo with Some o -> string_of_int (int_of_n (fo_size o)) | None -> "none")
             (int_of_n (n_disk objs)) (int_of_n (n_disk after)) (int_of_n (n_open objs)) (int_of_n (n_open after))
       | _ -> "fi MODEL-FUEL")
  | ["all2"; mem; ct; body] ->
      let mem = int_of_string mem in
      let body = bytes_of_hex body in
      (match ct_boundary (bytes_of_hex ct) with
       | FOk [] -> "all2 refused"
       | FOk key ->
           let n = List.length body in
           let (stt, nf, ft, ct, alive, _) = run mem key body [n] in
           let diff = ref [] in
           for k = 1 to n - 1 do
             let (stt', nf', ft', ct', alive', _) = run mem key body [k; n] in
             if cls stt' <> cls stt || nf' <> nf || ft' <> ft || ct' <> ct || alive' <> alive then diff := string_of_int k :: !diff
           done;
           Printf.sprintf "all2 %d %s %d%s cur=%s tmp=%d fd=%d D %s leaks=0" (if n > 0 then n - 1 else 0) stt nf ft ct alive alive
             (if !diff = [] then "-" else String.concat "," (List.rev !diff))
       | _ -> "all2 MODEL-FUEL")
  | _ -> "BAD-CASE")
