(* C01/C02 model driver.
   http <chunkhex>...   |  scgi <streamhex>  |  fcgi <streamhex>
   output: one item per request found on the connection, joined by " | ":
     OK M=..;S=..;P=..;Q=..;CT=..;CL=n;E=k:v,..;G=k:v,..;O=k:v,..;B=..     or  ERR / BAD400 / NEEDMORE / NEEDBODY / OTHER *)
let b = hex_of_bytes
let script_names = List.map bytes_of_hex ["2f73796e63"; "2f6173796e63"; "2f72657370"; "2f6172657370"]
let pairs l = if l = [] then "-" else String.concat "," (List.map (fun (k, v) -> b k ^ ":" ^ b v) l)
let rec take n l = if n <= 0 then [] else match l with [] -> [] | x :: r -> x :: take (n-1) r
let rec drop n l = if n <= 0 then l else match l with [] -> [] | _ :: r -> drop (n-1) r
(* what the application observes is the extracted Observe.observe (Props.v: forms_and_cookies_roundtrip,
   frontends_same_forms_and_cookies) *)
let show_view (v : view) body =
  let o = observe v body in
  Printf.sprintf "OK M=%s;S=%s;P=%s;Q=%s;CT=%s;CL=%d;E=%s;G=%s;O=%s;B=%s;K=%s"
    (b v.v_method) (b v.v_script) (b v.v_path_info) (b v.v_query) (b v.v_ctype) (int_of_z v.v_clen)
    (pairs v.v_env) (pairs o.o_get) (pairs o.o_post) (b o.o_body) (pairs o.o_cookies)
let cl_limit_i = 1024 * 1024
let rec nat_of_int n = if n <= 0 then O else S (nat_of_int (n - 1))
(* the whole connection is the extracted Conn.http_conn (chunk-level; Props.v: equal to the stream-level http_stream) *)
let show_item = function
  | IReq (v, body) -> show_view v body
  | IBad400 -> "BAD400" | INeg400 -> "NEG400" | IBig413 -> "BIG413" | IErr -> "ERR"
  | INeedMore -> "NEEDMORE" | INeedBody -> "NEEDBODY" | IOverCap -> "OVERCAP" | IFuel -> "FUEL"
let http_conn_items (chunks : n list list) =
  let total = List.fold_left (fun a c -> a + List.length c) 0 chunks in
  List.map show_item (http_conn (nat_of_int (total + 1)) script_names chunks)
(* steps of the harness line syntax: S:<hex> / s:<hex> are the segments, everything else is ignored *)
let segs steps = List.filter_map (fun s -> if String.length s >= 2 && (s.[0] = 'S' || s.[0] = 's') && s.[1] = ':' then Some (String.sub s 2 (String.length s - 2)) else None) steps
let chunks_of steps = List.filter (fun c -> c <> []) (List.map bytes_of_hex (segs steps))
(* some_headers_data_read never reads more than 16384 bytes at once: a larger segment reaches the parser in pieces *)
let rec split16k c = if List.length c <= 16384 then [c] else take 16384 c :: split16k (drop 16384 c)
(* SCGI and FastCGI run the chunk-level readers (Chunked.v) on the real segments; Props.v proves them equal to the
   stream-level decoders on the concatenation *)
let () = main_loop (fun line -> match line with
  | "http" :: steps -> String.concat " | " (http_conn_items (List.concat_map split16k (chunks_of steps)))
  | "scgi" :: steps ->
    (match scgi_decode_c (cache_of (chunks_of steps)) with
     | ScNeedMore -> "NEEDMORE" | ScError -> "ERR"
     | ScOk (e, c) ->
       let rest = stream_of c in
       let v = view_of_env e in
       let cl = int_of_z v.v_clen in
       if cl < 0 then "NEG400" else if cl > cl_limit_i then "BIG413"
       else if List.length rest < cl then "NEEDBODY" else show_view v (take cl rest))
  | "fcgi" :: steps ->
    let chunks = chunks_of steps in
    let total = List.fold_left (fun a c -> a + List.length c) 0 chunks in
    let show = function
      | FIReq (_, e, body) ->
        let v = view_of_env e in
        if int_of_z v.v_clen < 0 then "NEG400" else if int_of_z v.v_clen > cl_limit_i then "BIG413" else show_view v body
      | FIErr -> "ERR" | FIOther -> "OTHER" | FINeedMore -> "NEEDMORE" | FIFuel -> "FUEL" in
    String.concat " | " (List.map show (fcgi_conn_c (nat_of_int (total / 8 + 2)) (cache_of chunks)))
  | "pool" :: ops ->
    let op s = if s = "c" then OClear else
        let n = int_of_string (String.sub s 1 (String.length s - 1)) in
        OAlloc (n_of_int (if s.[0] = 's' then n + 1 else n)) in
    let tr = pool_run (List.map op ops) pool0 in
    if tr = [] then "-" else
    String.concat " " (List.map (fun (((i, off), n), cap) -> Printf.sprintf "%d:%d:%d:%d" (int_of_nat i) (int_of_n off) (int_of_n n) (int_of_n cap)) tr)
  | "smap" :: ops ->
    (* string_map: a<hexkey>=<hexval> add, g<hexkey> get, c clear, d dump *)
    let arg s = String.sub s 1 (String.length s - 1) in
    let unh s = if s = "-" then [] else bytes_of_hex s in
    let op s = match s.[0] with
      | 'a' -> let a = arg s in let i = String.index a '=' in
        SAdd (cstr (unh (String.sub a 0 i)), cstr (unh (String.sub a (i + 1) (String.length a - i - 1))))
      | 'g' -> SGet (cstr (unh (arg s)))
      | 'c' -> SClear
      | _ -> SDump in
    let show = function
      | RVal None -> "0" | RVal (Some v) -> b v | RLoop -> "LOOP"
      | RDump (size, total, keys) ->
        Printf.sprintf "D%d/%d[%s]" (int_of_nat size) (int_of_nat total)
          (String.concat "," (List.map (fun (i, k) -> Printf.sprintf "%d:%s" (int_of_nat i) (b k)) keys)) in
    let r = List.map show (smap_run (List.map op ops)) in
    if r = [] then "=" else String.concat " " r
  | _ -> "BAD-CASE")
