(* C01/C02 model driver.
   http <chunkhex>...   |  scgi <streamhex>  |  fcgi <streamhex>
   output: one item per request found on the connection, joined by " | ":
     OK M=..;S=..;P=..;Q=..;CT=..;CL=n;E=k:v,..;G=k:v,..;O=k:v,..;B=..     or  ERR / BAD400 / NEEDMORE / NEEDBODY / OTHER *)
let b = hex_of_bytes
let script_names = List.map bytes_of_hex ["2f73796e63"; "2f6173796e63"; "2f72657370"; "2f6172657370"]
let pairs l = if l = [] then "-" else String.concat "," (List.map (fun (k, v) -> b k ^ ":" ^ b v) l)
let rec take n l = if n <= 0 then [] else match l with [] -> [] | x :: r -> x :: take (n-1) r
let rec drop n l = if n <= 0 then l else match l with [] -> [] | _ :: r -> drop (n-1) r
let show_view (v : view) body =
  let post = if is_urlencoded v.v_ctype then parse_post_form body else [] in
  Printf.sprintf "OK M=%s;S=%s;P=%s;Q=%s;CT=%s;CL=%d;E=%s;G=%s;O=%s;B=%s"
    (b v.v_method) (b v.v_script) (b v.v_path_info) (b v.v_query) (b v.v_ctype) (int_of_z v.v_clen)
    (pairs v.v_env) (pairs (parse_form v.v_query)) (pairs post) (b body)
let cl_limit = 1024 * 1024
let rec http_conn first (chunks : n list list) acc =
  match hread pst0 hreq0 N0 chunks with
  | CNeedMore -> List.rev ((if first || chunks <> [] then "NEEDMORE" else "END") :: acc)
  | CError -> List.rev ("ERR" :: acc)
  | COutOfFuel -> List.rev ("FUEL" :: acc)
  | CDone (r, rest, unread) ->
    (match process_request script_names r with
     | PBad400 -> List.rev ("BAD400" :: acc)
     | POk v ->
       let cl = int_of_z v.v_clen in
       if cl < 0 then List.rev ("NEG400" :: acc)
       else if cl > cl_limit then List.rev ("BIG413" :: acc)
       else begin
         let avail = rest @ List.concat unread in
         if List.length avail < cl then List.rev ("NEEDBODY" :: acc)
         else begin
           let body = take cl avail in
           let left = drop cl avail in
           let item = show_view v body in
           (* what is left stays in the buffer of the kept-alive connection as one chunk *)
           if left = [] then List.rev (item :: acc) else http_conn false [left] (item :: acc)
         end
       end)
(* steps of the harness line syntax: S:<hex> / s:<hex> are the segments, everything else is ignored *)
let segs steps = List.filter_map (fun s -> if String.length s >= 2 && (s.[0] = 'S' || s.[0] = 's') && s.[1] = ':' then Some (String.sub s 2 (String.length s - 2)) else None) steps
let cat steps = let l = List.filter (fun h -> h <> "-") (segs steps) in if l = [] then "-" else String.concat "" l
let () = main_loop (fun line -> match (match line with p :: steps when p = "scgi" || p = "fcgi" -> [p; cat steps] | "http" :: steps -> "http" :: segs steps | l -> l) with
  | "http" :: chunks -> String.concat " | " (http_conn true (List.filter (fun c -> c <> []) (List.map bytes_of_hex chunks)) [])
  | ["scgi"; h] ->
    (match scgi_decode (bytes_of_hex h) with
     | SNeedMore -> "NEEDMORE" | SError -> "ERR"
     | SOk (e, rest) ->
       let v = view_of_env e in
       let cl = int_of_z v.v_clen in
       if cl < 0 then "NEG400" else if cl > cl_limit then "BIG413"
       else if List.length rest < cl then "NEEDBODY" else show_view v (take cl rest))
  | ["fcgi"; h] ->
    let rec go s acc =
      match fcgi_decode s with
      | FNeedMore -> List.rev ((if acc = [] || s <> [] then "NEEDMORE" else "END") :: acc)
      | FError -> List.rev ("ERR" :: acc)
      | FOther -> List.rev ("OTHER" :: acc)
      | FOk (keep, e, body, rest) ->
        let v = view_of_env e in
        let item = if int_of_z v.v_clen < 0 then "NEG400" else if int_of_z v.v_clen > cl_limit then "BIG413" else show_view v body in
        if keep && rest <> [] then go rest (item :: acc) else List.rev (item :: acc) in
    String.concat " | " (go (bytes_of_hex h) [])
  | _ -> "BAD-CASE")
